package props

import (
	"fmt"
	"go/ast"
	"go/parser"
	"go/token"
	"go/types"
	"sort"
	"strings"

	"mpcverif/internal/load"
	"mpcverif/internal/report"
)

// UnsafeFirst: a zero-copy view of received bytes does not index the bytes.
//
// `unsafe.String(&b[0], len(b))` (and unsafe.Slice) is the old idiom for viewing a byte slice as a string
// without copying; &b[0] is an index expression and panics on an empty slice, which the idiom's
// replacement unsafe.SliceData(b) does not.  On a path that carries peer data — an empty string is a valid
// value of every string field of the protocol — the idiom turns "empty address" or "empty argument name"
// into a crash of the receiving party.  The address of element 0 handed to unsafe.String / unsafe.Slice
// must lie under a test that the slice is not empty.
func UnsafeFirst(p *load.Program, run *report.Run) {
	const rule = "zero-copy-view-tolerates-empty"
	run.Rule(rule, "in the module (outside tests): an argument &X[0] of unsafe.String or unsafe.Slice lies inside an if statement whose condition compares len(X) with 0 (len(X) > 0, len(X) != 0, 0 < len(X)) — or the code uses unsafe.SliceData; with built-in examples")
	sites := 0
	var paths []string
	for path := range p.ByPath {
		if path == load.Module || strings.HasPrefix(path, load.Module+"/") {
			paths = append(paths, path)
		}
	}
	sort.Strings(paths)
	for _, path := range paths {
		pkg := p.ByPath[path]
		for _, f := range pkg.Syntax {
			if strings.HasSuffix(p.Fset.Position(f.Pos()).Filename, "_test.go") {
				continue
			}
			n, bad := unsafeFirstIn(f)
			sites += n
			for _, b := range bad {
				run.Violate(rule, strings.TrimPrefix(path, load.Module+"/")+"/unsafe view", p.Rel(b), "the address of element 0 is taken for a zero-copy view without a test that the slice is not empty: an empty value panics with index out of range", nil)
			}
		}
	}
	run.Count("unsafe-view-sites", sites)
	run.Count("packages-scanned", len(paths))
	if sites > 0 {
		run.OK(rule, "module", "", fmt.Sprintf("%d zero-copy views examined", sites))
	}
	fset := token.NewFileSet()
	ex, err := parser.ParseFile(fset, "example.go", unsafeFirstExample, 0)
	if err != nil {
		run.Undecided(rule, "built-in example", "", err.Error())
		return
	}
	n, bad := unsafeFirstIn(ex)
	if n != 2 || len(bad) != 1 {
		run.Undecided(rule, "built-in example", "", fmt.Sprintf("the rule misclassifies its built-in examples (%d sites, %d reports)", n, len(bad)))
		return
	}
	run.Count("unsafe-view-examples", 2)
	run.OK(rule, "built-in examples", "", "the unguarded &b[0] is reported, the guarded one accepted")
	run.Floor("unsafe-view-examples", 2)
	run.Floor("packages-scanned", 10)
}

func unsafeFirstIn(f *ast.File) (int, []token.Pos) {
	sites := 0
	var bad []token.Pos
	var stack []ast.Node
	ast.Inspect(f, func(n ast.Node) bool {
		if n == nil {
			stack = stack[:len(stack)-1]
			return true
		}
		stack = append(stack, n)
		call, ok := n.(*ast.CallExpr)
		if !ok || len(call.Args) < 1 {
			return true
		}
		if name := types.ExprString(call.Fun); name != "unsafe.String" && name != "unsafe.Slice" {
			return true
		}
		u, ok := ast.Unparen(call.Args[0]).(*ast.UnaryExpr)
		if !ok || u.Op != token.AND {
			return true
		}
		ix, ok := ast.Unparen(u.X).(*ast.IndexExpr)
		if !ok || types.ExprString(ix.Index) != "0" {
			return true
		}
		sites++
		x := types.ExprString(ix.X)
		guarded := false
		for i := len(stack) - 2; i >= 0; i-- {
			ifs, ok := stack[i].(*ast.IfStmt)
			if !ok || i+1 >= len(stack) || stack[i+1] != ast.Node(ifs.Body) {
				continue
			}
			c := strings.ReplaceAll(types.ExprString(ifs.Cond), " ", "")
			for _, g := range []string{"len(" + x + ")>0", "len(" + x + ")!=0", "0<len(" + x + ")", "0!=len(" + x + ")", "len(" + x + ")>=1"} {
				if strings.Contains(c, strings.ReplaceAll(g, " ", "")) {
					guarded = true
				}
			}
		}
		if !guarded {
			bad = append(bad, call.Pos())
		}
		return true
	})
	return sites, bad
}

const unsafeFirstExample = `package example

import "unsafe"

func view(b []byte) string { return unsafe.String(&b[0], len(b)) }

func viewGuarded(b []byte) string {
	if len(b) > 0 {
		return unsafe.String(&b[0], len(b))
	}
	return ""
}
`
