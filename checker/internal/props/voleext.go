package props

import (
	"fmt"
	"go/ast"
	"go/token"
	"go/types"
	"regexp"
	"strings"

	"mpcverif/internal/load"
	"mpcverif/internal/report"
)

// VoleExtensionCounts: both sides of the vector-OLE ask the OT extension for the same number of rows.
//
// Sender.Mul obtains its pads from IKNPSender.Send(n), Receiver.Mul its shares from IKNPReceiver.Receive
// with a choice vector of n flags; the extension is one conversation, so the two n must be the same number
// for the same call — the same function of the vector length m and of whatever each side keeps between
// calls.  If the sender extends `chunkRows(m - spare)` rows and the receiver `chunkRows(m)`, the receiver
// sends a column chunk the sender does not expect, the sender reads it as the y-vector and the receiver
// waits forever.  The rule writes both counts as expressions in m (locals assigned once are expanded, the
// kept spare rows are one symbol whether they are held as a slice or as a count) and compares them.
func VoleExtensionCounts(p *load.Program, run *report.Run) {
	const rule = "extension-count-agreement"
	run.Rule(rule, "in package vole: the count passed to (*ot.IKNPSender).Send by the sender's code and the length of the choice vector passed to (*ot.IKNPReceiver).Receive by the receiver's code are the same expression in the vector length, after expanding locals assigned once and writing the kept spare rows (len(x.spare) or x.spare) as one symbol")
	pk := p.ByPath[load.Module+"/vole"]
	if pk == nil {
		run.Undecided(rule, "vole", "", "package not loaded")
		return
	}
	info := pk.TypesInfo
	type site struct {
		fn   string
		expr string
		pos  token.Pos
	}
	var sends, recvs []site
	for _, f := range pk.Syntax {
		if strings.HasSuffix(p.Fset.Position(f.Pos()).Filename, "_test.go") {
			continue
		}
		for _, d := range f.Decls {
			fd, ok := d.(*ast.FuncDecl)
			if !ok || fd.Body == nil {
				continue
			}
			// locals assigned once
			defs := map[types.Object]ast.Expr{}
			count := map[types.Object]int{}
			ast.Inspect(fd.Body, func(n ast.Node) bool {
				if as, ok := n.(*ast.AssignStmt); ok && len(as.Lhs) == len(as.Rhs) {
					for i, l := range as.Lhs {
						if id, ok := l.(*ast.Ident); ok {
							if o := info.ObjectOf(id); o != nil {
								count[o]++
								defs[o] = as.Rhs[i]
							}
						}
					}
				}
				return true
			})
			var norm func(e ast.Expr, depth int) string
			norm = func(e ast.Expr, depth int) string {
				e = ast.Unparen(e)
				switch t := e.(type) {
				case *ast.Ident:
					if o := info.ObjectOf(t); o != nil && count[o] == 1 && depth < 4 {
						if _, isParam := o.(*types.Var); isParam && defs[o] != nil {
							return norm(defs[o], depth+1)
						}
					}
					return t.Name
				case *ast.BinaryExpr:
					return "(" + norm(t.X, depth) + " " + t.Op.String() + " " + norm(t.Y, depth) + ")"
				case *ast.CallExpr:
					if id, ok := t.Fun.(*ast.Ident); ok && id.Name == "len" && len(t.Args) == 1 {
						return "len(" + norm(t.Args[0], depth) + ")"
					}
					if id, ok := t.Fun.(*ast.Ident); ok && id.Name == "make" && len(t.Args) >= 2 {
						return norm(t.Args[1], depth)
					}
					var as []string
					for _, a := range t.Args {
						as = append(as, norm(a, depth))
					}
					return types.ExprString(t.Fun) + "(" + strings.Join(as, ", ") + ")"
				case *ast.SelectorExpr:
					return types.ExprString(t)
				}
				return types.ExprString(e)
			}
			ast.Inspect(fd.Body, func(n ast.Node) bool {
				c, ok := n.(*ast.CallExpr)
				if !ok {
					return true
				}
				sel, ok := c.Fun.(*ast.SelectorExpr)
				if !ok {
					return true
				}
				fn, _ := info.Uses[sel.Sel].(*types.Func)
				if fn == nil || fn.Type().(*types.Signature).Recv() == nil {
					return true
				}
				rt := fn.Type().(*types.Signature).Recv().Type().String()
				switch {
				case strings.HasSuffix(rt, "ot.IKNPSender") && sel.Sel.Name == "Send" && len(c.Args) >= 1:
					sends = append(sends, site{fd.Name.Name, norm(c.Args[0], 0), c.Pos()})
				case strings.HasSuffix(rt, "ot.IKNPReceiver") && sel.Sel.Name == "Receive" && len(c.Args) >= 1:
					// the length of the choice vector
					e := c.Args[0]
					s := norm(e, 0)
					if !strings.HasPrefix(s, "len(") {
						// a slice variable: its make size, or len of what it was assigned
						if id, ok := ast.Unparen(e).(*ast.Ident); ok {
							if o := info.ObjectOf(id); o != nil && defs[o] != nil {
								s = norm(defs[o], 0)
							} else {
								s = "len(" + id.Name + ")"
							}
						}
					}
					recvs = append(recvs, site{fd.Name.Name, s, c.Pos()})
				}
				return true
			})
		}
	}
	run.Count("extension-calls", len(sends)+len(recvs))
	run.Floor("extension-calls", 2)
	if len(sends) == 0 || len(recvs) == 0 {
		run.Undecided(rule, "vole", "", "the extension calls of the two sides were not found")
		return
	}
	spare := regexp.MustCompile(`len\((\w+)\.(\w*spare\w*)\)|(\w+)\.(\w*spare\w*)`)
	lenOfInput := regexp.MustCompile(`len\(\w+\)`)
	canon := func(s string) string {
		s = spare.ReplaceAllString(s, "SPARE")
		// the vector length: m, or len(inputs)
		s = lenOfInput.ReplaceAllString(s, "m")
		return s
	}
	for _, sd := range sends {
		for _, rc := range recvs {
			key := fmt.Sprintf("vole.%s/%s", sd.fn, rc.fn)
			a, b := canon(sd.expr), canon(rc.expr)
			if a == b {
				run.OK(rule, key, p.Rel(sd.pos), "both sides extend "+a+" rows")
			} else {
				run.Violate(rule, key, p.Rel(rc.pos), fmt.Sprintf("the sender extends %s rows, the receiver %s: for the same call the two sides run extensions of different sizes, the receiver sends a chunk the sender does not expect (or the other way round) and the conversation is out of step", a, b), nil)
			}
		}
	}
}
