package props

import (
	"fmt"
	"go/constant"
	"go/token"
	"go/types"
	"sort"
	"strings"

	"golang.org/x/tools/go/ssa"

	"mpcverif/internal/load"
	"mpcverif/internal/report"
)

// OneShiftBounded: a one shifted into place in a machine word is shifted by less than the word.
//
// Values and types of the I/O encoding have no width limit (uint100, [2]uint128); machine words have.
// `uint64(1) << n` is zero for n >= 64, and a mask `1<<n - 1` built that way is then all ones minus… zero: an
// element wider than 64 bits is cut to its low word without an error.  Every such shift by a variable amount
// has to lie behind a test that bounds the amount below the word size (a loop `i < 64`, a counter that starts below 64 and only goes down, an
// early return for wide values); arithmetic on wide values belongs in math/big.
func OneShiftBounded(pkgs ...string) func(p *load.Program, run *report.Run) {
	return func(p *load.Program, run *report.Run) {
		const rule = "one-shift-within-word"
		run.Rule(rule, "in packages "+strings.Join(pkgs, ", ")+" (tests excluded): every shift `1 << n` of a constant one of a 64-bit (or platform) integer type by a non-constant n is dominated by the true edge of a test n < K or n <= K-1 with K at most the word size, on n itself or on the value n is converted from, or n is reduced by `% K` / `& (K-1)`, or counts down from below the word size, or the code lies behind `size() <= 64` for a size query; with built-in examples")
		n := 0
		for _, name := range pkgs {
			pkg, err := p.Pkg(name)
			if err != nil {
				run.Undecided(rule, name, "", err.Error())
				continue
			}
			var fns []*ssa.Function
			for _, fn := range p.AllFunctions() {
				if fn.Pkg == pkg && fn.Blocks != nil && fn.Synthetic == "" && !strings.HasSuffix(p.Fset.Position(fn.Pos()).Filename, "_test.go") {
					fns = append(fns, fn)
				}
			}
			sort.Slice(fns, func(i, j int) bool { return fns[i].Pos() < fns[j].Pos() })
			for _, fn := range fns {
				for _, s := range oneShifts(fn) {
					n++
					key := strings.ReplaceAll(fn.RelString(nil), load.Module+"/", "") + "/1<<n"
					if s.bounded {
						run.OK(rule, key, p.Rel(s.pos), "the amount is tested against the word size first")
					} else {
						run.Violate(rule, key, p.Rel(s.pos), "a one of a 64-bit type is shifted by an amount nothing bounds below 64: for wider values the result is 0 (a mask built from it keeps the low word only, or everything), silently", nil)
					}
				}
			}
		}
		run.Count("variable-one-shifts", n)
		look, err := buildExample(oneShiftExample)
		if err != nil {
			run.Undecided(rule, "built-in example", "", err.Error())
			return
		}
		verdict := func(name string) string {
			out := ""
			for _, s := range oneShifts(look(name)) {
				if s.bounded {
					out += "b"
				} else {
					out += "u"
				}
			}
			return out
		}
		if a, b, c := verdict("loop"), verdict("guarded"), verdict("mask"); a != "b" || b != "b" || c != "u" {
			run.Undecided(rule, "built-in example", "", fmt.Sprintf("the rule misclassifies its built-in example (%s %s %s)", a, b, c))
			return
		}
		run.Count("one-shift-examples", 3)
		run.OK(rule, "built-in examples", "", "a shift inside `i < 64` and one behind an early return for wide values accepted; a mask for an element of any width reported")
		run.Floor("one-shift-examples", 3)
	}
}

type oneShift struct {
	pos     token.Pos
	bounded bool
}

func oneShifts(fn *ssa.Function) []oneShift {
	var out []oneShift
	if fn == nil {
		return nil
	}
	for _, b := range fn.Blocks {
		for _, ins := range b.Instrs {
			bo, ok := ins.(*ssa.BinOp)
			if !ok || bo.Op != token.SHL {
				continue
			}
			k, isC := bo.X.(*ssa.Const)
			if !isC || k.Value == nil || k.Value.Kind() != constant.Int {
				continue
			}
			if v, exact := constant.Int64Val(k.Value); !exact || v != 1 {
				continue
			}
			bt, ok := bo.Type().Underlying().(*types.Basic)
			if !ok {
				continue
			}
			switch bt.Kind() {
			case types.Uint64, types.Int64, types.Uint, types.Int:
			default:
				continue
			}
			if _, isConst := bo.Y.(*ssa.Const); isConst {
				continue
			}
			// the amount and what it is converted from
			amounts := map[ssa.Value]bool{}
			for v := bo.Y; v != nil; {
				amounts[v] = true
				if c, ok := v.(*ssa.Convert); ok {
					v = c.X
					continue
				}
				break
			}
			bounded := false
			// a counter that starts below the word size and only goes down
			for v := range amounts {
				if ph, ok := v.(*ssa.Phi); ok {
					down := true
					for _, e := range ph.Edges {
						if c, ok := e.(*ssa.Const); ok && c.Value != nil && c.Value.Kind() == constant.Int {
							if x, exact := constant.Int64Val(c.Value); exact && x >= 0 && x < 64 {
								continue
							}
						}
						if d, ok := e.(*ssa.BinOp); ok && d.Op == token.SUB && d.X == ssa.Value(ph) {
							if c, ok := d.Y.(*ssa.Const); ok && c.Value != nil && constant.Sign(c.Value) > 0 {
								continue
							}
						}
						down = false
					}
					if down && len(ph.Edges) > 0 {
						bounded = true
					}
				}
			}
			// reduced into the word: n % K, n & K
			for v := range amounts {
				if r, ok := v.(*ssa.BinOp); ok {
					if c, ok := r.Y.(*ssa.Const); ok && c.Value != nil && c.Value.Kind() == constant.Int {
						kv, _ := constant.Int64Val(c.Value)
						if r.Op == token.REM && kv > 0 && kv <= 64 || r.Op == token.AND && kv >= 0 && kv < 64 {
							bounded = true
						}
					}
				}
			}
			for _, g := range fn.Blocks {
				iff, ok := g.Instrs[len(g.Instrs)-1].(*ssa.If)
				if !ok {
					continue
				}
				cmp, ok := iff.Cond.(*ssa.BinOp)
				if !ok {
					continue
				}
				// the whole the amount is a part of fits a word: `total() <= 64` (a size query of the package)
				if call, ok := cmp.X.(*ssa.Call); ok && (cmp.Op == token.LEQ || cmp.Op == token.LSS) && call.Call.StaticCallee() != nil {
					if c, ok := cmp.Y.(*ssa.Const); ok && c.Value != nil && c.Value.Kind() == constant.Int {
						kv, _ := constant.Int64Val(c.Value)
						if cmp.Op == token.LSS {
							kv--
						}
						if kv <= 64 && len(g.Succs[0].Preds) == 1 && (g.Succs[0] == b || g.Succs[0].Dominates(b)) {
							bounded = true
						}
					}
				}
				// n < K, n <= K, K > n, K >= n, and their negations on the other edge
				var lim *ssa.Const
				var strict, onTrue bool
				switch {
				case amounts[cmp.X] && (cmp.Op == token.LSS || cmp.Op == token.LEQ):
					lim, _ = cmp.Y.(*ssa.Const)
					strict, onTrue = cmp.Op == token.LSS, true
				case amounts[cmp.Y] && (cmp.Op == token.GTR || cmp.Op == token.GEQ):
					lim, _ = cmp.X.(*ssa.Const)
					strict, onTrue = cmp.Op == token.GTR, true
				case amounts[cmp.X] && (cmp.Op == token.GTR || cmp.Op == token.GEQ):
					lim, _ = cmp.Y.(*ssa.Const)
					strict, onTrue = cmp.Op == token.GEQ, false // !(n >= K) is n < K
				case amounts[cmp.Y] && (cmp.Op == token.LSS || cmp.Op == token.LEQ):
					lim, _ = cmp.X.(*ssa.Const)
					strict, onTrue = cmp.Op == token.LEQ, false
				}
				if lim == nil || lim.Value == nil || lim.Value.Kind() != constant.Int {
					continue
				}
				kv, _ := constant.Int64Val(lim.Value)
				if !strict {
					kv++
				}
				if kv > 64 {
					continue
				}
				edge := g.Succs[0]
				if !onTrue {
					edge = g.Succs[1]
				}
				if len(edge.Preds) == 1 && (edge == b || edge.Dominates(b)) {
					bounded = true
				}
			}
			out = append(out, oneShift{bo.Pos(), bounded})
		}
	}
	return out
}

const oneShiftExample = `package example

func loop(v uint64) int {
	n := 0
	for i := 0; i < 64; i++ {
		if v&(uint64(1)<<i) != 0 {
			n++
		}
	}
	return n
}

func guarded(v uint64, bits int) uint64 {
	if bits >= 64 {
		return v
	}
	return v & (uint64(1)<<uint(bits) - 1)
}

func mask(v uint64, elSize int) uint64 {
	return v & (uint64(1)<<uint(elSize) - 1)
}
`
