package proto

import (
	"fmt"
	"go/token"
	"go/types"
	"strings"

	"golang.org/x/tools/go/ssa"

	"mpcverif/internal/load"
)

var connMethods = map[string]string{
	"SendByte": "!U8", "SendUint16": "!U16", "SendUint32": "!U32", "SendData": "!Data", "SendLabel": "!Label",
	"SendString": "!Data", "SendInputSizes": "!Sizes", "Flush": "Flush",
	"ReceiveByte": "?U8", "ReceiveUint16": "?U16", "ReceiveUint32": "?U32", "ReceiveData": "?Data", "ReceiveLabel": "?Label",
	"ReceiveString": "?Data", "ReceiveInputSizes": "?Sizes",
}

var otMethods = map[string]string{"InitSender": "OT.InitS", "InitReceiver": "OT.InitR", "Send": "OT.Send", "Receive": "OT.Recv"}

func recvNamed(t types.Type) (pkg, name string) {
	if p, ok := t.(*types.Pointer); ok {
		t = p.Elem()
	}
	if n, ok := t.(*types.Named); ok && n.Obj().Pkg() != nil {
		return n.Obj().Pkg().Path(), n.Obj().Name()
	}
	return "", ""
}

// Builder builds automata of role functions.
type Builder struct {
	// Opaque maps a callee (ssa.Function.String()) to a single symbol.
	Opaque map[string]string
	// CollapseLoop: for the named function, the loop containing a call to the
	// named callee is replaced by one symbol.
	CollapseLoop map[string]struct{ Callee, Sym string }
	// ExitLoopAfter: for the named function, control leaving the switch arm
	// that contains a call with the given constant first argument leaves the loop.
	ExitLoopAfter map[string]func(ssa.Instruction) bool
	// Assume: for the named function, parameter name -> constant value.
	Assume map[string]map[string]int64
	// OnceLoop: for the named function, every outermost loop that contains
	// events runs at most once (its back edges leave the loop).
	OnceLoop map[string]bool

	sticky     map[string]bool
	hasComm    map[*ssa.Function]int
	errCtor    map[*ssa.Function]int
	Unknown    []string
	Funcs      map[*ssa.Function]bool
	EventSites int
}

// NewBuilder creates a builder.
func NewBuilder() *Builder {
	return &Builder{Opaque: map[string]string{}, CollapseLoop: map[string]struct{ Callee, Sym string }{},
		ExitLoopAfter: map[string]func(ssa.Instruction) bool{}, Assume: map[string]map[string]int64{}, OnceLoop: map[string]bool{},
		hasComm: map[*ssa.Function]int{}, errCtor: map[*ssa.Function]int{}, Funcs: map[*ssa.Function]bool{}}
}

func (b *Builder) event(c ssa.CallInstruction) (string, bool) {
	cc := c.Common()
	if cc.IsInvoke() {
		pkg, name := recvNamed(cc.Value.Type())
		if pkg == load.Module+"/ot" && name == "IO" {
			if s, ok := connMethods[cc.Method.Name()]; ok {
				return s, true
			}
		}
		if pkg == load.Module+"/ot" && name == "OT" {
			if s, ok := otMethods[cc.Method.Name()]; ok {
				return s, true
			}
		}
		return "", false
	}
	callee := cc.StaticCallee()
	if callee == nil {
		return "", false
	}
	if s, ok := b.Opaque[callee.String()]; ok {
		return s, true
	}
	if callee.Signature.Recv() != nil {
		pkg, name := recvNamed(callee.Signature.Recv().Type())
		if pkg == load.Module+"/p2p" && name == "Conn" {
			if s, ok := connMethods[callee.Name()]; ok {
				return s, true
			}
			if callee.Name() == "NeedSpace" {
				return "", true // may flush, never blocks; not an event
			}
			// a transfer method the table does not know (a vector form added later): events of its
			// direction with a framing this engine does not see
			if strings.HasPrefix(callee.Name(), "Receive") {
				return "?ANYSEQ", true
			}
			if strings.HasPrefix(callee.Name(), "Send") {
				return "!ANYSEQ", true
			}
		}
	}
	if lengthPrefixedReader(callee) {
		return "?Data", true
	}
	switch callee.String() {
	case load.Module + "/ot.SendString":
		return "!Data", true
	case load.Module + "/ot.ReceiveString", load.Module + "/ot.ReceiveBigInt":
		return "?Data", true
	}
	return "", false
}

// rawEvent: a store to the position fields of a p2p.Conn from outside package p2p is communication by
// direct access to the connection's buffers: bytes of unknown framing are produced (WritePos) or consumed
// (ReadStart).
func rawEvent(ins ssa.Instruction) string {
	st, ok := ins.(*ssa.Store)
	if !ok {
		return ""
	}
	fa, ok := st.Addr.(*ssa.FieldAddr)
	if !ok {
		return ""
	}
	if fn := ins.Parent(); fn == nil || fn.Pkg == nil || fn.Pkg.Pkg.Path() == load.Module+"/p2p" {
		return ""
	}
	pkg, name := recvNamed(fa.X.Type())
	if pkg != load.Module+"/p2p" || name != "Conn" {
		return ""
	}
	pt, ok := fa.X.Type().Underlying().(*types.Pointer)
	if !ok {
		return ""
	}
	stt, ok := pt.Elem().Underlying().(*types.Struct)
	if !ok {
		return ""
	}
	switch stt.Field(fa.Field).Name() {
	case "WritePos":
		return "!RAW"
	case "ReadStart":
		return "?RAW"
	}
	return ""
}

func (b *Builder) communicates(f *ssa.Function) bool {
	switch b.hasComm[f] {
	case 1:
		return true
	case 2, 3:
		return false
	}
	b.hasComm[f] = 3
	res := false
	for _, blk := range f.Blocks {
		for _, ins := range blk.Instrs {
			if rawEvent(ins) != "" {
				res = true
			}
			c, ok := ins.(ssa.CallInstruction)
			if !ok {
				continue
			}
			if s, ok := b.event(c); ok {
				if s != "" {
					res = true
				}
			} else if callee := c.Common().StaticCallee(); load.InModule(callee) && b.communicates(callee) {
				res = true
			}
		}
	}
	if res {
		b.hasComm[f] = 1
	} else {
		b.hasComm[f] = 2
	}
	return res
}

func isNilConst(v ssa.Value) bool {
	c, ok := v.(*ssa.Const)
	return ok && c.Value == nil
}

// isErrCtor: every return of f yields a non-nil error.
func (b *Builder) isErrCtor(f *ssa.Function) bool {
	if f == nil {
		return false
	}
	switch f.String() {
	case "fmt.Errorf", "errors.New":
		return true
	}
	switch b.errCtor[f] {
	case 1:
		return true
	case 2, 3:
		return false
	}
	b.errCtor[f] = 3
	res := f.Signature.Results()
	ok := len(f.Blocks) > 0 && res.Len() > 0 && res.At(res.Len()-1).Type().String() == "error"
	found := false
	if ok {
		for _, blk := range f.Blocks {
			r, isRet := blk.Instrs[len(blk.Instrs)-1].(*ssa.Return)
			if !isRet {
				continue
			}
			found = true
			switch t := r.Results[len(r.Results)-1].(type) {
			case *ssa.Call:
				if !b.isErrCtor(t.Call.StaticCallee()) {
					ok = false
				}
			case *ssa.MakeInterface:
			default:
				ok = false
			}
		}
	}
	if ok && found {
		b.errCtor[f] = 1
		return true
	}
	b.errCtor[f] = 2
	return false
}

func (b *Builder) callResult(v ssa.Value) bool {
	switch t := v.(type) {
	case *ssa.Call:
		return !b.isErrCtor(t.Call.StaticCallee())
	case *ssa.Extract:
		c, ok := t.Tuple.(*ssa.Call)
		return ok && !b.isErrCtor(c.Call.StaticCallee())
	}
	return false
}

// successReturn: the error operand is nil, or the unchecked result of a call
// that is not an error constructor.
func (b *Builder) successReturn(f *ssa.Function, r *ssa.Return) bool {
	res := f.Signature.Results()
	if res.Len() == 0 {
		return true
	}
	if res.At(res.Len()-1).Type().String() != "error" {
		return true
	}
	v := r.Results[len(r.Results)-1]
	// defer-spilled results: `*res = v; rundefers; t = *res; return t`
	if ld, ok := v.(*ssa.UnOp); ok && ld.Op == token.MUL {
		if al, ok := ld.X.(*ssa.Alloc); ok {
			for _, ins := range r.Block().Instrs {
				if st, ok := ins.(*ssa.Store); ok && st.Addr == ssa.Value(al) {
					v = st.Val
				}
			}
		}
	}
	if isNilConst(v) {
		return true
	}
	guarded := func(v ssa.Value) bool {
		blk := r.Block()
		if len(blk.Preds) == 0 {
			return false
		}
		for _, pred := range blk.Preds {
			iff, ok := pred.Instrs[len(pred.Instrs)-1].(*ssa.If)
			if !ok {
				return false
			}
			bin, ok := iff.Cond.(*ssa.BinOp)
			if !ok || bin.X != v || !isNilConst(bin.Y) {
				return false
			}
			if bin.Op == token.NEQ && pred.Succs[0] == blk {
				continue
			}
			if bin.Op == token.EQL && pred.Succs[1] == blk {
				continue
			}
			return false
		}
		return true
	}
	if b.callResult(v) {
		return !guarded(v)
	}
	if phi, ok := v.(*ssa.Phi); ok {
		for _, e := range phi.Edges {
			if isNilConst(e) || (b.callResult(e) && !guarded(v)) {
				return true
			}
		}
	}
	return false
}

// stickyDecide: a test of a *sticky error field* against nil, on the paths that matter to a conversation.
//
// The errWriter idiom keeps the first error in a field of a wrapper object (`if p.err == nil { p.err =
// p.conn.SendUint32(v) }`) and tests it once per phase (`if p.err != nil { return nil, p.err }`).  The
// field is sticky when every store to it, anywhere in its package, happens where the field is known to be
// nil (under `p.err == nil`, or after `if p.err != nil { return }`): once set it is never cleared, so on
// every execution that ends in success it was nil all along.  The automaton of successful conversations is
// then the one where `field == nil` is true and `field != nil` is false.
func (b *Builder) stickyDecide(cond ssa.Value) (bool, bool) {
	bin, ok := cond.(*ssa.BinOp)
	if !ok || (bin.Op != token.EQL && bin.Op != token.NEQ) || !isNilConst(bin.Y) {
		return false, false
	}
	ld, ok := bin.X.(*ssa.UnOp)
	if !ok || ld.Op != token.MUL {
		return false, false
	}
	fa, ok := ld.X.(*ssa.FieldAddr)
	if !ok || ld.Type().String() != "error" {
		return false, false
	}
	if !b.stickyField(fa) {
		return false, false
	}
	return bin.Op == token.EQL, true
}

func (b *Builder) stickyField(fa *ssa.FieldAddr) bool {
	pt, ok := fa.X.Type().Underlying().(*types.Pointer)
	if !ok {
		return false
	}
	key := fmt.Sprintf("%s#%d", pt.Elem().String(), fa.Field)
	if b.sticky == nil {
		b.sticky = map[string]bool{}
	}
	if v, ok := b.sticky[key]; ok {
		return v
	}
	b.sticky[key] = false
	fn := fa.Parent()
	if fn == nil || fn.Pkg == nil {
		return false
	}
	sameField := func(v ssa.Value) (*ssa.FieldAddr, bool) {
		f2, ok := v.(*ssa.FieldAddr)
		if !ok {
			return nil, false
		}
		p2, ok := f2.X.Type().Underlying().(*types.Pointer)
		return f2, ok && p2.Elem().String() == pt.Elem().String() && f2.Field == fa.Field
	}
	stores, okAll := 0, true
	var fns []*ssa.Function
	for _, m := range fn.Pkg.Members {
		if f, ok := m.(*ssa.Function); ok {
			fns = append(fns, f)
		}
		if t, ok := m.(*ssa.Type); ok {
			for _, recv := range []types.Type{t.Type(), types.NewPointer(t.Type())} {
				ms := fn.Pkg.Prog.MethodSets.MethodSet(recv)
				for i := 0; i < ms.Len(); i++ {
					if f := fn.Pkg.Prog.MethodValue(ms.At(i)); f != nil && f.Pkg == fn.Pkg {
						fns = append(fns, f)
					}
				}
			}
		}
	}
	for _, f := range fns {
		all := append([]*ssa.Function{f}, f.AnonFuncs...)
		for _, g := range all {
			for _, blk := range g.Blocks {
				for _, ins := range blk.Instrs {
					st, ok := ins.(*ssa.Store)
					if !ok {
						continue
					}
					f2, ok := sameField(st.Addr)
					if !ok {
						continue
					}
					// the composite literal that creates the object sets nothing or nil
					if _, isAlloc := f2.X.(*ssa.Alloc); isAlloc {
						continue
					}
					stores++
					// dominated by an edge on which the field is nil
					nilHere := false
					for _, h := range g.Blocks {
						iff, ok := h.Instrs[len(h.Instrs)-1].(*ssa.If)
						if !ok {
							continue
						}
						bo, ok := iff.Cond.(*ssa.BinOp)
						if !ok || (bo.Op != token.EQL && bo.Op != token.NEQ) || !isNilConst(bo.Y) {
							continue
						}
						l2, ok := bo.X.(*ssa.UnOp)
						if !ok || l2.Op != token.MUL {
							continue
						}
						f3, ok := sameField(l2.X)
						if !ok || f3.X != f2.X {
							continue
						}
						edge := h.Succs[0]
						if bo.Op == token.NEQ {
							edge = h.Succs[1]
						}
						if len(edge.Preds) == 1 && edge.Dominates(blk) {
							nilHere = true
						}
					}
					if !nilHere {
						okAll = false
					}
				}
			}
		}
	}
	b.sticky[key] = okAll && stores > 0
	return b.sticky[key]
}

// decide evaluates a branch condition under parameter assumptions.
func decide(cond ssa.Value, assume map[string]int64) (bool, bool) {
	bin, ok := cond.(*ssa.BinOp)
	if !ok {
		return false, false
	}
	strip := func(v ssa.Value) ssa.Value {
		for {
			switch t := v.(type) {
			case *ssa.Convert:
				v = t.X
			case *ssa.ChangeType:
				v = t.X
			default:
				return v
			}
		}
	}
	x, y := strip(bin.X), strip(bin.Y)
	p, ok := x.(*ssa.Parameter)
	c, ok2 := y.(*ssa.Const)
	if !ok || !ok2 || c.Value == nil {
		return false, false
	}
	val, has := assume[p.Name()]
	if !has {
		return false, false
	}
	k := c.Int64()
	switch bin.Op {
	case token.EQL:
		return val == k, true
	case token.NEQ:
		return val != k, true
	case token.LSS:
		return val < k, true
	case token.GTR:
		return val > k, true
	case token.LEQ:
		return val <= k, true
	case token.GEQ:
		return val >= k, true
	}
	return false, false
}

// loopBlocks returns the natural loop (set of blocks) of the innermost loop containing blk, and its header.
func loopBlocks(blk *ssa.BasicBlock) (map[*ssa.BasicBlock]bool, *ssa.BasicBlock) {
	for h := blk; h != nil; h = h.Idom() {
		var backs []*ssa.BasicBlock
		for _, p := range h.Preds {
			if h.Dominates(p) {
				backs = append(backs, p)
			}
		}
		if len(backs) == 0 {
			continue
		}
		set := map[*ssa.BasicBlock]bool{h: true}
		stack := append([]*ssa.BasicBlock{}, backs...)
		for len(stack) > 0 {
			x := stack[len(stack)-1]
			stack = stack[:len(stack)-1]
			if set[x] {
				continue
			}
			set[x] = true
			stack = append(stack, x.Preds...)
		}
		if set[blk] {
			return set, h
		}
	}
	return nil, nil
}

// Build adds the automaton of f to n and returns its entry and exit states.
func (b *Builder) Build(n *NFA, f *ssa.Function, stack []*ssa.Function) (entry, exit int) {
	entry, exit = n.state(), n.state()
	for _, s := range stack {
		if s == f {
			n.add(entry, exit, "REC:"+f.Name())
			return
		}
	}
	stack = append(stack, f)
	b.Funcs[f] = true
	if len(f.Blocks) == 0 {
		n.add(entry, exit, "")
		return
	}
	assume := b.Assume[f.String()]

	// optional loop collapse
	var collapsed map[*ssa.BasicBlock]bool
	var collapseHeader *ssa.BasicBlock
	collapseSym := ""
	if cl, ok := b.CollapseLoop[f.String()]; ok {
		for _, blk := range f.Blocks {
			for _, ins := range blk.Instrs {
				if c, ok := ins.(ssa.CallInstruction); ok {
					if callee := c.Common().StaticCallee(); callee != nil && callee.String() == cl.Callee {
						collapsed, collapseHeader = loopBlocks(blk)
						collapseSym = cl.Sym
					}
				}
			}
		}
		if collapsed == nil {
			b.Unknown = append(b.Unknown, f.String()+": loop to collapse (call to "+cl.Callee+") not found")
		}
	}
	// optional loop exit after an arm
	var exitArm, exitTarget, exitHeader *ssa.BasicBlock
	if pred, ok := b.ExitLoopAfter[f.String()]; ok {
		for _, blk := range f.Blocks {
			for _, ins := range blk.Instrs {
				if pred(ins) {
					exitArm = blk
				}
			}
		}
		if exitArm != nil {
			loop, h := loopBlocks(exitArm)
			exitHeader = h
			for _, s := range h.Succs {
				if !loop[s] {
					exitTarget = s
				}
			}
			// the arm entry: walk up single-pred chain while still dominated by a switch test
			for len(exitArm.Preds) == 1 && len(exitArm.Preds[0].Succs) == 1 {
				exitArm = exitArm.Preds[0]
			}
		}
		if exitArm == nil || exitTarget == nil {
			b.Unknown = append(b.Unknown, f.String()+": arm for loop exit not found")
		}
	}

	// once-loops: header -> exit target, for outermost loops
	onceExit := map[*ssa.BasicBlock]*ssa.BasicBlock{}
	if b.OnceLoop[f.String()] {
		type lp struct {
			set map[*ssa.BasicBlock]bool
			h   *ssa.BasicBlock
		}
		var loops []lp
		for _, blk := range f.Blocks {
			isHeader := false
			for _, pr := range blk.Preds {
				if blk.Dominates(pr) {
					isHeader = true
				}
			}
			if isHeader {
				set, h := loopBlocks(blk)
				if h == blk {
					loops = append(loops, lp{set, h})
				}
			}
		}
		for _, l := range loops {
			outer := true
			for _, o := range loops {
				if o.h != l.h && o.set[l.h] {
					outer = false
				}
			}
			if !outer {
				continue
			}
			for _, s := range l.h.Succs {
				if !l.set[s] {
					onceExit[l.h] = s
				}
			}
		}
	}

	blockIn := make([]int, len(f.Blocks))
	for i := range f.Blocks {
		blockIn[i] = n.state()
	}
	n.add(entry, blockIn[0], "")
	for i, blk := range f.Blocks {
		cur := blockIn[i]
		inCollapsed := collapsed[blk]
		for _, ins := range blk.Instrs {
			switch t := ins.(type) {
			case *ssa.Go, *ssa.Defer:
				continue
			case *ssa.Store:
				if s := rawEvent(t); s != "" && !inCollapsed {
					// zero or more events of that direction, of unknown types
					r, nx := n.state(), n.state()
					n.add(cur, r, "")
					n.add(r, r, s[:1]+"ANY")
					n.add(r, nx, "")
					cur = nx
					b.EventSites++
				}
			case ssa.CallInstruction:
				if s, ok := b.event(t); ok {
					if strings.HasSuffix(s, "ANYSEQ") && !inCollapsed {
						r, nx := n.state(), n.state()
						n.add(cur, r, "")
						n.add(r, r, s[:1]+"ANY")
						n.add(r, nx, "")
						cur = nx
						b.EventSites++
						continue
					}
					if s != "" && !inCollapsed {
						nx := n.state()
						n.add(cur, nx, s)
						cur = nx
						b.EventSites++
					}
					continue
				}
				callee := t.Common().StaticCallee()
				if load.InModule(callee) && b.communicates(callee) {
					if inCollapsed {
						continue
					}
					ce, cx := b.Build(n, callee, stack)
					n.add(cur, ce, "")
					cur = cx
				}
			case *ssa.Return:
				if b.successReturn(f, t) {
					n.add(cur, exit, "")
				}
			case *ssa.If:
				if v, ok := b.stickyDecide(t.Cond); ok {
					s := blk.Succs[1]
					if v {
						s = blk.Succs[0]
					}
					b.succ(n, cur, blk, s, blockIn, collapsed, collapseHeader, collapseSym, exitArm, exitTarget, exitHeader, onceExit)
				} else if v, ok := decide(t.Cond, assume); ok {
					s := blk.Succs[1]
					if v {
						s = blk.Succs[0]
					}
					b.succ(n, cur, blk, s, blockIn, collapsed, collapseHeader, collapseSym, exitArm, exitTarget, exitHeader, onceExit)
				} else {
					for _, s := range blk.Succs {
						b.succ(n, cur, blk, s, blockIn, collapsed, collapseHeader, collapseSym, exitArm, exitTarget, exitHeader, onceExit)
					}
				}
			case *ssa.Jump:
				b.succ(n, cur, blk, blk.Succs[0], blockIn, collapsed, collapseHeader, collapseSym, exitArm, exitTarget, exitHeader, onceExit)
			}
		}
	}
	return
}

func (b *Builder) succ(n *NFA, cur int, from, to *ssa.BasicBlock, blockIn []int,
	collapsed map[*ssa.BasicBlock]bool, header *ssa.BasicBlock, sym string, exitArm, exitTarget, exitHeader *ssa.BasicBlock,
	onceExit map[*ssa.BasicBlock]*ssa.BasicBlock) {
	if exitArm != nil {
		if exitArm.Dominates(from) && !exitArm.Dominates(to) {
			to = exitTarget // leaving the annotated arm leaves the loop
		} else if from == exitHeader && to == exitTarget {
			return // the loop is left only through the annotated arm
		}
	}
	if ex, ok := onceExit[to]; ok && to.Dominates(from) {
		to = ex // back edge of a once-loop
	}
	if collapsed != nil && to == header && !collapsed[from] {
		n.add(cur, blockIn[to.Index], sym)
		return
	}
	n.add(cur, blockIn[to.Index], "")
}

// Automaton builds the live automaton of a role function.
func (b *Builder) Automaton(f *ssa.Function) *NFA {
	n := newNFA()
	e, x := b.Build(n, f, nil)
	n.start = e
	n.accept[x] = true
	return live(n)
}

// FlushIssues runs the clean/dirty typestate over the automaton.  entryDirty
// selects the entry state.  It returns receive events reachable in the dirty
// state and whether some accepting state is reachable dirty.
func FlushIssues(n *NFA, entryDirty bool) (dirtyReceives []string, dirtyExit bool) {
	type st struct {
		s     int
		dirty bool
	}
	seen := map[st]bool{}
	rep := map[string]bool{}
	queue := []st{{n.start, entryDirty}}
	for len(queue) > 0 {
		c := queue[0]
		queue = queue[1:]
		if seen[c] {
			continue
		}
		seen[c] = true
		if n.accept[c.s] && c.dirty {
			dirtyExit = true
		}
		for _, e := range n.edges[c.s] {
			d := c.dirty
			sym := strings.TrimSuffix(e.sym, "*")
			switch {
			case sym == "Flush":
				d = false
			case strings.HasPrefix(sym, "!"):
				d = true
			case strings.HasPrefix(sym, "?"), sym == "OT.Recv", sym == "OT.InitR", sym == "OT.Send":
				if c.dirty && !rep[sym] {
					rep[sym] = true
					dirtyReceives = append(dirtyReceives, sym)
				}
				if !strings.HasPrefix(sym, "?") {
					d = false
				}
			case sym == "OT.InitS":
				d = false // verified per implementation: flushes before its first receive, ends clean
			}
			queue = append(queue, st{e.to, d})
		}
	}
	return
}

// lengthPrefixedReader: f reads a 32-bit length n from a connection and then exactly n bytes, one ReceiveByte
// per element of a buffer made with that length: on the wire that is the length-prefixed data of
// Conn.ReceiveData, whatever checks f applies to n in between.
func lengthPrefixedReader(f *ssa.Function) bool {
	if f == nil || f.Blocks == nil || f.Pkg == nil || !strings.HasPrefix(f.Pkg.Pkg.Path(), load.Module) {
		return false
	}
	var lenCall, byteCall *ssa.Call
	for _, b := range f.Blocks {
		for _, ins := range b.Instrs {
			c, ok := ins.(*ssa.Call)
			if !ok {
				continue
			}
			callee := c.Call.StaticCallee()
			name := ""
			if callee != nil {
				name = callee.Name()
			} else if c.Call.IsInvoke() {
				name = c.Call.Method.Name()
			}
			switch name {
			case "ReceiveUint32":
				if lenCall != nil {
					return false
				}
				lenCall = c
			case "ReceiveByte":
				if byteCall != nil {
					return false
				}
				byteCall = c
			default:
				if strings.HasPrefix(name, "Receive") || strings.HasPrefix(name, "Send") || name == "Fill" || name == "Flush" {
					return false
				}
			}
		}
	}
	if lenCall == nil || byteCall == nil || lenCall.Referrers() == nil {
		return false
	}
	// the buffer made with the received length
	derives := func(v ssa.Value) bool {
		for d := 0; d < 4; d++ {
			switch t := v.(type) {
			case *ssa.Convert:
				v = t.X
			case *ssa.Extract:
				return t.Tuple == ssa.Value(lenCall) && t.Index == 0
			default:
				return false
			}
		}
		return false
	}
	var buf *ssa.MakeSlice
	for _, b := range f.Blocks {
		for _, ins := range b.Instrs {
			if ms, ok := ins.(*ssa.MakeSlice); ok && derives(ms.Len) {
				buf = ms
			}
		}
	}
	if buf == nil {
		return false
	}
	// the byte read is stored into an element of that buffer, inside a loop bounded by its length
	stored := false
	if byteCall.Referrers() != nil {
		for _, rf := range *byteCall.Referrers() {
			ex, ok := rf.(*ssa.Extract)
			if !ok || ex.Index != 0 || ex.Referrers() == nil {
				continue
			}
			for _, r2 := range *ex.Referrers() {
				if st, ok := r2.(*ssa.Store); ok {
					if ia, ok := st.Addr.(*ssa.IndexAddr); ok && ia.X == ssa.Value(buf) {
						stored = true
					}
				}
			}
		}
	}
	if !stored {
		return false
	}
	// the loop: its header compares an index with len(buf) (a range loop) or with the length itself
	body, header := loopBlocks(byteCall.Block())
	if header == nil || !body[byteCall.Block()] {
		return false
	}
	iff, ok := header.Instrs[len(header.Instrs)-1].(*ssa.If)
	if !ok {
		return false
	}
	bo, ok := iff.Cond.(*ssa.BinOp)
	if !ok {
		return false
	}
	for _, side := range []ssa.Value{bo.X, bo.Y} {
		if derives(side) {
			return true
		}
		if c, ok := side.(*ssa.Call); ok {
			if bi, ok := c.Call.Value.(*ssa.Builtin); ok && bi.Name() == "len" && c.Call.Args[0] == ssa.Value(buf) {
				return true
			}
		}
	}
	return false
}

// LengthPrefixedReader reports whether f reads a 32-bit length and then that many single bytes into a buffer of
// that length (the wire form of Conn.ReceiveData).
func LengthPrefixedReader(f *ssa.Function) bool { return lengthPrefixedReader(f) }
