package proto

import (
	"fmt"
	"sort"
	"strings"

	"golang.org/x/tools/go/ssa"

	"mpcverif/internal/load"
	"mpcverif/internal/report"
)

// Ref names a function or method anchor.
type Ref struct{ Pkg, Type, Name string }

func (r Ref) String() string {
	if r.Type == "" {
		return r.Pkg + "." + r.Name
	}
	return r.Pkg + "." + r.Type + "." + r.Name
}

// Resolve finds the anchor.
func (r Ref) Resolve(p *load.Program) (*ssa.Function, error) {
	if r.Type == "" {
		return p.Func(r.Pkg, r.Name)
	}
	return p.Method(r.Pkg, r.Type, r.Name)
}

// Pair is a pair of role functions that must be dual.
type Pair struct {
	Name   string
	A, B   Ref
	Mode   string // exact | starred (frozen per pair; starred needs a reason)
	Reason string
	// EntryDirtyA/B: the role may be entered with unflushed sends.
	EntryDirtyA, EntryDirtyB bool
	// DirtyExitOK: the role may return with unflushed sends (the caller continues the conversation).
	DirtyExitOKA, DirtyExitOKB bool
	// PrefixA/B: events consumed or produced on behalf of the role before it is entered.
	PrefixA, PrefixB []string
	// IgnoreEmptyA: the empty conversation of A (a loop that runs zero times) is not compared.
	IgnoreEmptyA bool
}

func withPrefix(n *NFA, prefix []string) *NFA {
	if len(prefix) == 0 {
		return n
	}
	m := &NFA{edges: append([][]edge{}, n.edges...), start: n.start, accept: n.accept}
	cur := m.state()
	first := cur
	for _, s := range prefix {
		nx := m.state()
		m.add(cur, nx, s)
		cur = nx
	}
	m.add(cur, n.start, "")
	m.start = first
	return m
}

// Check decides duality and the flush discipline for the pairs.
func Check(p *load.Program, run *report.Run, b *Builder, rec map[string]string, pairs []Pair) {
	for _, pr := range pairs {
		fa, err := pr.A.Resolve(p)
		if err != nil {
			run.Undecided("anchor", pr.A.String(), "", err.Error())
			continue
		}
		fb, err := pr.B.Resolve(p)
		if err != nil {
			run.Undecided("anchor", pr.B.String(), "", err.Error())
			continue
		}
		na, nb := b.Automaton(fa), b.Automaton(fb)
		run.Count("role-pairs", 1)
		key := pr.A.String() + " <-> " + pr.B.String()
		if na.Events() == 0 || nb.Events() == 0 {
			run.Undecided("duality", key, p.Rel(fa.Pos()), "a role has no communication events on success paths")
			continue
		}
		drop := func(s string) string {
			if s == "Flush" {
				return ""
			}
			return s
		}
		da, db := mapSyms(na, drop), mapSyms(nb, drop)
		if pr.IgnoreEmptyA {
			da = noEmpty(da)
		}
		da, db = withPrefix(da, pr.PrefixA), withPrefix(db, pr.PrefixB)
		var ok bool
		var trace []string
		var why string
		switch pr.Mode {
		case "exact":
			ok, trace, why = equivalent(da, db, rec)
		case "starred":
			ok, trace, why = equivalent(stutter(star(da)), stutter(star(db)), rec)
		default:
			run.Undecided("duality", key, "", "pair has no frozen comparison mode")
			continue
		}
		if len(trace) > 14 {
			trace = append([]string{"..."}, trace[len(trace)-14:]...)
		}
		if ok {
			run.OK("duality", key, p.Rel(fa.Pos()), fmt.Sprintf("%s; %d/%d events", pr.Mode, na.Events(), nb.Events()))
		} else {
			run.Violate("duality", key, p.Rel(fa.Pos())+" / "+p.Rel(fb.Pos()), why, map[string]any{"after": trace, "mode": pr.Mode})
		}
		for _, side := range []struct {
			n          *NFA
			ref        Ref
			f          *ssa.Function
			entryDirty bool
			exitOK     bool
		}{{na, pr.A, fa, pr.EntryDirtyA, pr.DirtyExitOKA}, {nb, pr.B, fb, pr.EntryDirtyB, pr.DirtyExitOKB}} {
			recvs, dirtyExit := FlushIssues(side.n, side.entryDirty)
			fk := side.ref.String()
			if len(recvs) > 0 {
				run.Violate("flush-before-receive", fk, p.Rel(side.f.Pos()), fmt.Sprintf("blocking %v reachable with unflushed sends", recvs), nil)
			} else if dirtyExit && !side.exitOK {
				// the obligation passes to the callers: if every function of the module that calls this one
				// flushes before it blocks or returns (its automaton, with this callee inlined, is clean), the
				// unflushed tail is sent with the caller's next message
				callers := staticCallers(p, side.f)
				passed := len(callers) > 0
				var names []string
				for _, g := range callers {
					rg, dg := FlushIssues(b.Automaton(g), false)
					if len(rg) > 0 || dg {
						passed = false
					}
					names = append(names, g.Name())
				}
				if passed {
					run.OK("flush-discipline", fk, p.Rel(side.f.Pos()), fmt.Sprintf("returns with unflushed sends; every caller in the module (%v) flushes before it blocks or returns", names))
				} else {
					run.Violate("flush-before-return", fk, p.Rel(side.f.Pos()), "the role can return successfully with unflushed sends", nil)
				}
			} else {
				run.OK("flush-discipline", fk, p.Rel(side.f.Pos()), "")
			}
		}
	}
	for _, u := range b.Unknown {
		run.Undecided("annotation", u, "", "annotation target not found")
	}
	run.Count("event-sites", b.EventSites)
	run.Count("role-functions", len(b.Funcs))
}

// noEmpty removes the empty word from the language.
func noEmpty(n *NFA) *NFA {
	// product with a one-bit "has seen an event" flag
	type k struct {
		s    int
		seen bool
	}
	ids := map[k]int{}
	m := newNFA()
	var work []k
	get := func(x k) int {
		if id, ok := ids[x]; ok {
			return id
		}
		id := m.state()
		ids[x] = id
		if n.accept[x.s] && x.seen {
			m.accept[id] = true
		}
		work = append(work, x)
		return id
	}
	m.start = get(k{n.start, false})
	for len(work) > 0 {
		x := work[len(work)-1]
		work = work[:len(work)-1]
		for _, e := range n.edges[x.s] {
			m.add(ids[x], get(k{e.to, x.seen || e.sym != ""}), e.sym)
		}
	}
	return live(m)
}

// staticCallers lists the module functions (tests excluded) with a static call of f.
func staticCallers(p *load.Program, f *ssa.Function) []*ssa.Function {
	var out []*ssa.Function
	for _, g := range p.AllFunctions() {
		if g == f || !load.InModule(g) || g.Blocks == nil || strings.HasSuffix(p.Fset.Position(g.Pos()).Filename, "_test.go") || strings.Contains(g.Pkg.Pkg.Path(), "/apps/") {
			continue
		}
		found := false
		for _, b := range g.Blocks {
			for _, ins := range b.Instrs {
				if c, ok := ins.(ssa.CallInstruction); ok && c.Common().StaticCallee() == f {
					found = true
				}
			}
		}
		if found {
			out = append(out, g)
		}
	}
	sort.Slice(out, func(i, j int) bool { return out[i].Pos() < out[j].Pos() })
	return out
}
