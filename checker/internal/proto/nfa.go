// Package proto extracts communication automata from role functions and
// checks duality of role pairs and the flush-before-receive discipline.
package proto

import (
	"fmt"
	"sort"
	"strings"
)

type edge struct {
	to  int
	sym string // "" = epsilon
}

// NFA is an automaton over communication events.
type NFA struct {
	edges  [][]edge
	start  int
	accept map[int]bool
}

func newNFA() *NFA { return &NFA{accept: map[int]bool{}} }

func (n *NFA) state() int {
	n.edges = append(n.edges, nil)
	return len(n.edges) - 1
}

func (n *NFA) add(from, to int, sym string) { n.edges[from] = append(n.edges[from], edge{to, sym}) }

// Events counts the non-epsilon edges.
func (n *NFA) Events() int {
	c := 0
	for _, es := range n.edges {
		for _, e := range es {
			if e.sym != "" {
				c++
			}
		}
	}
	return c
}

func (n *NFA) closure(set map[int]bool) map[int]bool {
	var stack []int
	for s := range set {
		stack = append(stack, s)
	}
	for len(stack) > 0 {
		s := stack[len(stack)-1]
		stack = stack[:len(stack)-1]
		for _, e := range n.edges[s] {
			if e.sym == "" && !set[e.to] {
				set[e.to] = true
				stack = append(stack, e.to)
			}
		}
	}
	return set
}

func key(set map[int]bool) string {
	ks := make([]int, 0, len(set))
	for s := range set {
		ks = append(ks, s)
	}
	sort.Ints(ks)
	return fmt.Sprint(ks)
}

func (n *NFA) step(set map[int]bool, sym string) map[int]bool {
	out := map[int]bool{}
	for s := range set {
		for _, e := range n.edges[s] {
			if e.sym == sym {
				out[e.to] = true
			}
		}
	}
	return n.closure(out)
}

func (n *NFA) syms(set map[int]bool) map[string]bool {
	out := map[string]bool{}
	for s := range set {
		for _, e := range n.edges[s] {
			if e.sym != "" {
				out[e.sym] = true
			}
		}
	}
	return out
}

func (n *NFA) accepting(set map[int]bool) bool {
	for s := range set {
		if n.accept[s] {
			return true
		}
	}
	return false
}

// live restricts the automaton to states from which acceptance is reachable.
func live(n *NFA) *NFA {
	rev := make([][]int, len(n.edges))
	for s, es := range n.edges {
		for _, e := range es {
			rev[e.to] = append(rev[e.to], s)
		}
	}
	ok := map[int]bool{}
	var stack []int
	for s := range n.accept {
		ok[s] = true
		stack = append(stack, s)
	}
	for len(stack) > 0 {
		s := stack[len(stack)-1]
		stack = stack[:len(stack)-1]
		for _, p := range rev[s] {
			if !ok[p] {
				ok[p] = true
				stack = append(stack, p)
			}
		}
	}
	m := &NFA{edges: make([][]edge, len(n.edges)), start: n.start, accept: n.accept}
	for s, es := range n.edges {
		if !ok[s] {
			continue
		}
		for _, e := range es {
			if ok[e.to] {
				m.edges[s] = append(m.edges[s], e)
			}
		}
	}
	return m
}

func mapSyms(n *NFA, f func(string) string) *NFA {
	m := &NFA{edges: make([][]edge, len(n.edges)), start: n.start, accept: n.accept}
	for s, es := range n.edges {
		for _, e := range es {
			if e.sym != "" {
				e.sym = f(e.sym)
			}
			m.edges[s] = append(m.edges[s], e)
		}
	}
	return m
}

// star marks events on cycles with a trailing '*'.
func star(n *NFA) *NFA {
	N := len(n.edges)
	index := make([]int, N)
	low := make([]int, N)
	on := make([]bool, N)
	comp := make([]int, N)
	for i := range index {
		index[i] = -1
	}
	var stack []int
	idx, ncomp := 0, 0
	size := map[int]int{}
	type frameT struct {
		v, ei int
	}
	for root := 0; root < N; root++ {
		if index[root] >= 0 {
			continue
		}
		// iterative Tarjan
		call := []frameT{{root, 0}}
		index[root], low[root] = idx, idx
		idx++
		stack = append(stack, root)
		on[root] = true
		for len(call) > 0 {
			f := &call[len(call)-1]
			if f.ei < len(n.edges[f.v]) {
				w := n.edges[f.v][f.ei].to
				f.ei++
				if index[w] < 0 {
					index[w], low[w] = idx, idx
					idx++
					stack = append(stack, w)
					on[w] = true
					call = append(call, frameT{w, 0})
				} else if on[w] && index[w] < low[f.v] {
					low[f.v] = index[w]
				}
				continue
			}
			v := f.v
			call = call[:len(call)-1]
			if len(call) > 0 {
				p := call[len(call)-1].v
				if low[v] < low[p] {
					low[p] = low[v]
				}
			}
			if low[v] == index[v] {
				for {
					w := stack[len(stack)-1]
					stack = stack[:len(stack)-1]
					on[w] = false
					comp[w] = ncomp
					size[ncomp]++
					if w == v {
						break
					}
				}
				ncomp++
			}
		}
	}
	m := &NFA{edges: make([][]edge, N), start: n.start, accept: n.accept}
	for s, es := range n.edges {
		for _, e := range es {
			if e.sym != "" && comp[s] == comp[e.to] && (size[comp[s]] > 1 || s == e.to) {
				e.sym += "*"
			}
			m.edges[s] = append(m.edges[s], e)
		}
	}
	return m
}

// stutter collapses runs of one starred symbol.
func stutter(n *NFA) *NFA {
	type k struct {
		s    int
		last string
	}
	ids := map[k]int{}
	m := newNFA()
	var work []k
	get := func(x k) int {
		if id, ok := ids[x]; ok {
			return id
		}
		id := m.state()
		ids[x] = id
		if n.accept[x.s] {
			m.accept[id] = true
		}
		work = append(work, x)
		return id
	}
	m.start = get(k{n.start, ""})
	for len(work) > 0 {
		x := work[len(work)-1]
		work = work[:len(work)-1]
		from := ids[x]
		for _, e := range n.edges[x.s] {
			switch {
			case e.sym == "":
				m.add(from, get(k{e.to, x.last}), "")
			case strings.HasSuffix(e.sym, "*") && e.sym == x.last:
				m.add(from, get(k{e.to, x.last}), "")
			case strings.HasSuffix(e.sym, "*"):
				m.add(from, get(k{e.to, e.sym}), e.sym)
			default:
				m.add(from, get(k{e.to, ""}), e.sym)
			}
		}
	}
	return m
}

// Dual maps an event of one role to the matching event of the peer.
func Dual(s string, rec map[string]string) string {
	suffix := ""
	base := s
	if strings.HasSuffix(base, "*") {
		base, suffix = base[:len(base)-1], "*"
	}
	switch {
	case strings.HasPrefix(base, "!"):
		return "?" + base[1:] + suffix
	case strings.HasPrefix(base, "?"):
		return "!" + base[1:] + suffix
	case strings.HasPrefix(base, "REC:"):
		if m, ok := rec[base[4:]]; ok {
			return "REC:" + m + suffix
		}
		for k, v := range rec {
			if v == base[4:] {
				return "REC:" + k + suffix
			}
		}
	}
	switch base {
	case "OT.Send":
		return "OT.Recv" + suffix
	case "OT.Recv":
		return "OT.Send" + suffix
	case "OT.InitS":
		return "OT.InitR" + suffix
	case "OT.InitR":
		return "OT.InitS" + suffix
	}
	return s
}

// equivalent decides L(a) == dual(L(b)) and returns a distinguishing trace.
func equivalent(a, b *NFA, rec map[string]string) (bool, []string, string) {
	type pair struct{ x, y map[int]bool }
	type item struct {
		p     pair
		trace []string
	}
	seen := map[string]bool{}
	queue := []item{{pair{a.closure(map[int]bool{a.start: true}), b.closure(map[int]bool{b.start: true})}, nil}}
	for len(queue) > 0 {
		it := queue[0]
		queue = queue[1:]
		k := key(it.p.x) + "|" + key(it.p.y)
		if seen[k] {
			continue
		}
		seen[k] = true
		sa := a.syms(it.p.x)
		sb := map[string]string{}
		for s := range b.syms(it.p.y) {
			sb[Dual(s, rec)] = s
		}
		// wildcards: "!ANY" / "?ANY" (a role that writes or reads the connection's buffers directly) stand for
		// any events of that direction; they oblige the peer to nothing and match whatever it does
		isAny := func(s string) bool { return len(s) > 1 && strings.HasPrefix(s[1:], "ANY") }
		anyOf := func(set map[string]bool, dir byte) string {
			for s := range set {
				if isAny(s) && s[0] == dir {
					return s
				}
			}
			return ""
		}
		sbSet := map[string]bool{}
		for s := range sb {
			sbSet[s] = true
		}
		aWild := anyOf(sa, '!') != "" || anyOf(sa, '?') != ""
		bWild := anyOf(sbSet, '!') != "" || anyOf(sbSet, '?') != ""
		if a.accepting(it.p.x) != b.accepting(it.p.y) {
			// a side inside a raw segment may still produce what the other is waiting for
			if (a.accepting(it.p.x) && !aWild) || (b.accepting(it.p.y) && !bWild) {
				who := "the second role can stop here, the first cannot"
				if a.accepting(it.p.x) {
					who = "the first role can stop here, the second cannot"
				}
				return false, it.trace, who
			}
		}
		var sorted []string
		for s := range sa {
			sorted = append(sorted, s)
		}
		sort.Strings(sorted)
		directed := func(s string) bool { return s != "" && (s[0] == '!' || s[0] == '?') }
		for _, s := range sorted {
			if isAny(s) {
				continue
			}
			if _, ok := sb[s]; !ok {
				if directed(s) && anyOf(sbSet, s[0]) != "" {
					continue
				}
				return false, append(append([]string{}, it.trace...), s), "the first role can do " + s + ", the second has no matching " + Dual(s, rec)
			}
		}
		var sortedB []string
		for s := range sb {
			sortedB = append(sortedB, s)
		}
		sort.Strings(sortedB)
		for _, s := range sortedB {
			if isAny(s) {
				continue
			}
			if !sa[s] {
				if directed(s) && anyOf(sa, s[0]) != "" {
					continue
				}
				return false, append(append([]string{}, it.trace...), s), "the second role can do " + sb[s] + ", the first has no matching " + s
			}
		}
		union := func(x, y map[int]bool) map[int]bool {
			out := map[int]bool{}
			for k := range x {
				out[k] = true
			}
			for k := range y {
				out[k] = true
			}
			return out
		}
		all := map[string]bool{}
		for _, s := range sorted {
			all[s] = true
		}
		for _, s := range sortedB {
			all[s] = true
		}
		var syms []string
		for s := range all {
			syms = append(syms, s)
		}
		sort.Strings(syms)
		for _, s := range syms {
			var nx, ny map[int]bool
			if isAny(s) {
				// both sides raw in the same direction
				if !sa[s] || !sbSet[s] {
					continue
				}
				nx, ny = a.step(it.p.x, s), b.step(it.p.y, sb[s])
			} else {
				nx, ny = map[int]bool{}, map[int]bool{}
				if sa[s] {
					nx = a.step(it.p.x, s)
				}
				if directed(s) {
					if w := anyOf(sa, s[0]); w != "" {
						nx = union(nx, a.step(it.p.x, w))
					}
				}
				if bs, ok := sb[s]; ok {
					ny = b.step(it.p.y, bs)
				}
				if directed(s) {
					if w := anyOf(sbSet, s[0]); w != "" {
						ny = union(ny, b.step(it.p.y, sb[w]))
					}
				}
			}
			if len(nx) == 0 || len(ny) == 0 {
				continue
			}
			queue = append(queue, item{pair{nx, ny}, append(append([]string{}, it.trace...), s)})
		}
	}
	return true, nil, ""
}

// --- construction API for other extractors (codec) ---

// NewNFA creates an empty automaton.
func NewNFA() *NFA { return newNFA() }

// State adds a state.
func (n *NFA) State() int { return n.state() }

// Edge adds an edge (sym "" is epsilon).
func (n *NFA) Edge(from, to int, sym string) { n.add(from, to, sym) }

// SetStart sets the start state.
func (n *NFA) SetStart(s int) { n.start = s }

// Accept marks an accepting state.
func (n *NFA) Accept(s int) { n.accept[s] = true }

// Live restricts to states that can reach acceptance.
func Live(n *NFA) *NFA { return live(n) }

// Equivalent decides L(a) == dual(L(b)).
func Equivalent(a, b *NFA, rec map[string]string) (bool, []string, string) {
	return equivalent(a, b, rec)
}

// Optional adds an epsilon edge parallel to every edge whose symbol satisfies pred
// (variable-length fields may be empty).
func Optional(n *NFA, pred func(string) bool) *NFA {
	m := &NFA{edges: make([][]edge, len(n.edges)), start: n.start, accept: n.accept}
	for s, es := range n.edges {
		for _, e := range es {
			m.edges[s] = append(m.edges[s], e)
			if e.sym != "" && pred(e.sym) {
				m.edges[s] = append(m.edges[s], edge{e.to, ""})
			}
		}
	}
	return m
}

// MapSyms renames symbols (a symbol mapped to "" becomes epsilon).
func MapSyms(n *NFA, f func(string) string) *NFA { return mapSyms(n, f) }
