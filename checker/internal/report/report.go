// Package report collects obligations, violations and evidence of one check run.
package report

import (
	"bufio"
	"crypto/sha1"
	"encoding/json"
	"fmt"
	"os"
	"path/filepath"
	"sort"
	"strings"
	"time"
)

// Obligation is one decided instance of a rule.
type Obligation struct {
	Rule      string `json:"rule"`
	Construct string `json:"construct"` // package.Func/construct key, never a line number
	Pos       string `json:"pos,omitempty"`
	Status    string `json:"status"` // discharged | violated | undecided | known
	Detail    string `json:"detail,omitempty"`
	Witness   any    `json:"witness,omitempty"`
}

// Run accumulates the results of the rules of one property.
type Run struct {
	Property string
	Tier     string
	Seed     int64
	Level    string
	start    time.Time
	Obls     []Obligation
	Analysed map[string]int // what was looked at: functions, sites, partitions...
	Rules    []string
	floors   map[string]int
	Notes    []string
}

// New starts a run.
func New(prop, tier, level string, seed int64) *Run {
	return &Run{Property: prop, Tier: tier, Level: level, Seed: seed, start: time.Now(), Analysed: map[string]int{}, floors: map[string]int{}}
}

// Rule registers a rule description (printed in the evidence).
func (r *Run) Rule(id, text string) { r.Rules = append(r.Rules, id+": "+text) }

// Count adds to an analysed-things counter.
func (r *Run) Count(what string, n int) { r.Analysed[what] += n }

// Floor declares the minimum instance count of a counter (vacuity guard).
func (r *Run) Floor(what string, min int) { r.floors[what] = min }

// OK records a discharged obligation.
func (r *Run) OK(rule, construct, pos, detail string) {
	r.Obls = append(r.Obls, Obligation{Rule: rule, Construct: construct, Pos: pos, Status: "discharged", Detail: detail})
}

// Violate records a violated obligation.
func (r *Run) Violate(rule, construct, pos, detail string, witness any) {
	r.Obls = append(r.Obls, Obligation{Rule: rule, Construct: construct, Pos: pos, Status: "violated", Detail: detail, Witness: witness})
}

// Undecided records an obligation the engine could not decide.
func (r *Run) Undecided(rule, construct, pos, detail string) {
	r.Obls = append(r.Obls, Obligation{Rule: rule, Construct: construct, Pos: pos, Status: "undecided", Detail: detail})
}

// Known is one line of known_findings.txt.
type Known struct {
	Kind      string // finding | fixed
	Property  string
	Rule      string
	Construct string
	Text      string
}

// LoadKnown parses the known-findings file (missing file = none).
func LoadKnown(path string) ([]Known, error) {
	f, err := os.Open(path)
	if err != nil {
		if os.IsNotExist(err) {
			return nil, nil
		}
		return nil, err
	}
	defer f.Close()
	var out []Known
	sc := bufio.NewScanner(f)
	for sc.Scan() {
		line := strings.TrimSpace(sc.Text())
		if line == "" || strings.HasPrefix(line, "#") {
			continue
		}
		var k Known
		switch {
		case strings.HasPrefix(line, "finding:"):
			k.Kind = "finding"
			line = strings.TrimSpace(line[len("finding:"):])
		case strings.HasPrefix(line, "fixed:"):
			k.Kind = "fixed"
			line = strings.TrimSpace(line[len("fixed:"):])
		default:
			return nil, fmt.Errorf("known findings: bad line %q", line)
		}
		k.Text = line
		for _, fld := range strings.Fields(line) {
			switch {
			case strings.HasPrefix(fld, "property="):
				k.Property = fld[len("property="):]
			case strings.HasPrefix(fld, "rule="):
				k.Rule = fld[len("rule="):]
			case strings.HasPrefix(fld, "construct="):
				k.Construct = fld[len("construct="):]
			}
		}
		out = append(out, k)
	}
	return out, sc.Err()
}

// Finish applies known findings and vacuity floors, writes the evidence file and the
// violation reports, prints the contract lines and returns the exit code.
func (r *Run) Finish(verifDir string, known []Known) int {
	r.checkFloors()
	for i := range r.Obls {
		o := &r.Obls[i]
		if o.Status != "violated" {
			continue
		}
		for _, k := range known {
			if k.Kind == "finding" && k.Property == r.Property && k.Rule == o.Rule && k.Construct == o.Construct {
				o.Status = "known"
			}
		}
	}
	counts := map[string]int{}
	distinct := map[string]bool{}
	for _, o := range r.Obls {
		counts[o.Status]++
		distinct[o.Rule+"|"+o.Construct] = true
	}
	exit := 0
	violDir := filepath.Join(verifDir, "evidence", "violations")
	os.MkdirAll(violDir, 0o755)
	old, _ := filepath.Glob(filepath.Join(violDir, r.Property+"-*.json"))
	for _, f := range old {
		os.Remove(f)
	}
	for _, o := range r.Obls {
		switch o.Status {
		case "known":
			fmt.Printf("KNOWN-FINDING: property=%s rule=%s construct=%s %s\n", r.Property, o.Rule, o.Construct, o.Detail)
		case "violated", "undecided":
			exit = 1
			h := sha1.Sum([]byte(o.Rule + "|" + o.Construct + "|" + o.Detail))
			path := filepath.Join(violDir, fmt.Sprintf("%s-%x.json", r.Property, h[:6]))
			b, _ := json.MarshalIndent(o, "", " ")
			os.WriteFile(path, b, 0o644)
			fmt.Printf("VIOLATION property=%s replay=%s\n", r.Property, path)
			fmt.Printf("  %s %s %s [%s]: %s\n", o.Status, o.Rule, o.Construct, o.Pos, o.Detail)
		}
	}
	// evidence
	var samples []any
	for _, o := range r.Obls {
		if len(samples) < 12 {
			samples = append(samples, o)
		}
	}
	if len(samples) == 0 {
		samples = append(samples, "no obligations")
	}
	cov := map[string]any{
		"rules":     r.Rules,
		"analysed":  r.Analysed,
		"by_status": counts,
		"samples":   samples,
		"notes":     r.Notes,
	}
	total := len(r.Obls)
	switch r.Level {
	case "proof":
		cov["obligations"] = total
		cov["discharged"] = counts["discharged"]
		cov["checker_cmd"] = fmt.Sprintf("./run %s %s", r.Property, r.Tier)
		tb := r.Notes
		if tb == nil {
			tb = []string{}
		}
		cov["trusted_base"] = tb
	default:
		cov["explanation"] = strings.Join(r.Rules, " | ")
	}
	cov["evaluations"] = total
	cov["distinct_nontrivial"] = len(distinct)
	keys := make([]string, 0, len(r.Analysed))
	for k := range r.Analysed {
		keys = append(keys, k)
	}
	sort.Strings(keys)
	ev := map[string]any{
		"property_id": r.Property,
		"tier":        r.Tier,
		"seed":        r.Seed,
		"level":       r.Level,
		"coverage":    cov,
		"wall_s":      time.Since(r.start).Seconds(),
	}
	b, _ := json.MarshalIndent(ev, "", " ")
	os.MkdirAll(filepath.Join(verifDir, "evidence"), 0o755)
	os.WriteFile(filepath.Join(verifDir, "evidence", r.Property+".json"), b, 0o644)
	fmt.Printf("%s %s: %d obligations: %d discharged, %d known, %d violated, %d undecided; analysed %v\n",
		r.Property, r.Tier, total, counts["discharged"], counts["known"], counts["violated"], counts["undecided"], r.Analysed)
	return exit
}

// checkFloors turns a counter below its floor into an undecided obligation.
func (r *Run) checkFloors() {
	for what, min := range r.floors {
		if r.Analysed[what] < min {
			r.Undecided("vacuity", what, "", fmt.Sprintf("analysed %d %s, fewer than the %d confirmed by hand", r.Analysed[what], what, min))
		}
	}
	r.floors = map[string]int{}
}

// Merge adds the results of the same rules under another build configuration:
// obligations that came out the same are not repeated, the others are added
// with the configuration named in their detail; counters are kept apart.
func (r *Run) Merge(o *Run, label string) {
	o.checkFloors()
	have := map[string]bool{}
	for _, x := range r.Obls {
		have[x.Rule+"|"+x.Construct+"|"+x.Status] = true
	}
	for _, x := range o.Obls {
		if have[x.Rule+"|"+x.Construct+"|"+x.Status] {
			continue
		}
		x.Detail = "[" + label + "] " + x.Detail
		r.Obls = append(r.Obls, x)
	}
	for k, v := range o.Analysed {
		r.Analysed[label+":"+k] = v
	}
	r.Notes = append(r.Notes, fmt.Sprintf("also analysed under %s: %d obligations", label, len(o.Obls)))
}

// Replay prints the obligations of one construct as decided on the current
// tree and returns 1 if any of them still fails.
func (r *Run) Replay(path string, known []Known) int {
	b, err := os.ReadFile(path)
	if err != nil {
		fmt.Println(err)
		return 2
	}
	var want Obligation
	if err := json.Unmarshal(b, &want); err != nil {
		fmt.Println(err)
		return 2
	}
	r.checkFloors()
	exit, found := 0, false
	for _, o := range r.Obls {
		if o.Rule != want.Rule || o.Construct != want.Construct {
			continue
		}
		found = true
		for _, k := range known {
			if o.Status == "violated" && k.Kind == "finding" && k.Property == r.Property && k.Rule == o.Rule && k.Construct == o.Construct {
				o.Status = "known"
			}
		}
		out, _ := json.MarshalIndent(o, "", " ")
		fmt.Println(string(out))
		if o.Status == "violated" || o.Status == "undecided" {
			exit = 1
			fmt.Printf("VIOLATION property=%s replay=%s\n", r.Property, path)
		}
	}
	if !found {
		fmt.Printf("the construct %s of rule %s no longer exists on this tree\n", want.Construct, want.Rule)
	}
	return exit
}
