import subprocess,sys
src=open('/repo/gmw/triples.go').read()
def run(name, old, new, expect='fire'):
    assert old in src, name
    subprocess.run(['python3','/root/proto/mpcverif/mut.py','C10t',name,'gmw/triples.go',old.replace('\\','\\\\').replace('\n','\\n').replace('\t','\\t'),new.replace('\n','\\n').replace('\t','\\t'),expect])
run('forget-delta','				c[w] ^= sBits[w] ^ (u[w] & v[w])\n			}\n\n			// ====','				c[w] ^= sBits[w] ^ (a[w] & v[w])\n			}\n\n			// ====')
run('delta-inverted','			if delta == 1 {\n				for w := 0; w < words; w++ {\n					u[w] = a[w] ^ ^uint64(0)\n				}\n			} else {\n				copy(u, a)\n			}\n\n			if err := peer.SendBitvec','			if delta == 0 {\n				for w := 0; w < words; w++ {\n					u[w] = a[w] ^ ^uint64(0)\n				}\n			} else {\n				copy(u, a)\n			}\n\n			if err := peer.SendBitvec')
run('benign-neq','			if delta == 1 {\n				for w := 0; w < words; w++ {\n					u[w] = a[w] ^ ^uint64(0)\n				}\n			} else {\n				copy(u, a)\n			}\n\n			if err := peer.SendBitvec','			if delta != 1 {\n				copy(u, a)\n			} else {\n				for w := 0; w < words; w++ {\n					u[w] = ^a[w]\n				}\n			}\n\n			if err := peer.SendBitvec','silent')
