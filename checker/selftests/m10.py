exec(open('/root/proto/mpcverif/selftests/m9.py').read().split("G='circuit/garbler.go'")[0])
C='compiler/circuits/compiler.go'
run2(['C09g'],C,'c09-benign-operand-order',[('		if g.A.Value() == Zero && !g.B.IsInput() &&\n			g.B.Input().O.NumOutputs() == 1 {','		if !g.B.IsInput() && Zero == g.A.Value() &&\n			g.B.Input().O.NumOutputs() == 1 {')],'silent')
run2(['C09g'],C,'c09-drop-fanout-guard',[('		if g.A.Value() == Zero && !g.B.IsInput() &&\n			g.B.Input().O.NumOutputs() == 1 {','		if g.A.Value() == Zero && !g.B.IsInput() {')],'fire')
N='p2p/network.go'
run2(['C19m'],N,'c19-benign-rename-magic',[('	magic := connMagic | (connID & 0xff)\n	if err := conn.SendUint32(magic); err != nil {','	hello := connMagic | (connID & 0xff)\n	if err := conn.SendUint32(hello); err != nil {')],'silent')
run2(['C19m'],N,'c19-hello-id-first',[('	if err := conn.SendUint32(magic); err != nil {','	if err := conn.SendUint32(XX); err != nil {'),('	if err := conn.SendUint32(self.ID); err != nil {\n		conn.Close()','	if err := conn.SendUint32(magic); err != nil {\n		conn.Close()'),('SendUint32(XX)','SendUint32(self.ID)')],'fire')
G='gmw/network.go'
run2(['C10o'],G,'c10-rest-of-next-level',[('		for _, gate := range rest[i] {','		for _, gate := range rest[i+1] {')],'fire')
