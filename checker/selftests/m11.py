exec(open('/root/proto/mpcverif/selftests/m9.py').read().split("G='circuit/garbler.go'")[0])
E='circuit/evaluator.go'
G='circuit/garbler.go'
run2(['C02r'],E,'c02-offset-count-swapped',[('	if err := conn.SendUint32(int(circ.Inputs[0].Type.Bits)); err != nil {','	if err := conn.SendUint32(int(circ.Inputs[1].Type.Bits)); err != nil {'),('	if err := conn.SendUint32(int(circ.Inputs[1].Type.Bits)); err != nil {\n		return nil, err\n	}\n	if err := conn.Flush','	if err := conn.SendUint32(int(circ.Inputs[0].Type.Bits)); err != nil {\n		return nil, err\n	}\n	if err := conn.Flush')],'fire')
run2(['C02r'],G,'c02-garbler-output-offset',[('		wire := garbled.Wires[circ.NumWires-circ.Outputs.Size()+i]','		wire := garbled.Wires[circ.NumWires-circ.Outputs.Size()+i-1]')],'fire')
run2(['C02r'],G,'c02-ot-range-short',[('	err = oti.Send(garbled.Wires[offset : offset+count])','	err = oti.Send(garbled.Wires[offset : offset+count-1])')],'fire')
run2(['C02r'],E,'c02-eval-output-offset',[('		r := wires[Wire(circ.NumWires-circ.Outputs.Size()+i)]','		r := wires[Wire(circ.NumWires-circ.Outputs.Size()+i+1)]')],'fire')
