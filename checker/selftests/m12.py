exec(open('/root/proto/mpcverif/selftests/m9.py').read().split("G='circuit/garbler.go'")[0])
G='circuit/stream_garble.go'
run2(['C05f'],G,'benign-helper32',[('''			bo.PutUint32(buf[*bufpos+0:], uint32(aIndex))
			bo.PutUint32(buf[*bufpos+4:], uint32(bIndex))
			bo.PutUint32(buf[*bufpos+8:], uint32(cIndex))
			*bufpos = *bufpos + 12
''','''			put3x32(buf, bufpos, aIndex, bIndex, cIndex)
'''),('\nfunc ','''
func put3x32(buf []byte, bufpos *int, a, b, c Wire) {
	bo.PutUint32(buf[*bufpos+0:], uint32(a))
	bo.PutUint32(buf[*bufpos+4:], uint32(b))
	bo.PutUint32(buf[*bufpos+8:], uint32(c))
	*bufpos = *bufpos + 12
}

func ''')],'silent')
# C13: a copy before the mutation is benign (compared with the unchanged tree, which has F4)
run2(['C13'],'result.go','benign-copy',[('''	case types.TBool:
		return result.Uint64() != 0''','''	case types.TBool:
		tmpb := new(big.Int).Set(result)
		tmpb.Abs(tmpb)
		return tmpb.Uint64() != 0''')],'silent')
run2(['C19m'],'p2p/network.go','wait-if',[('	for nw.need[connID] > 0 && !nw.listenerDone {','	if nw.need[connID] > 0 && !nw.listenerDone {')],'fire')
