exec(open('/root/proto/mpcverif/selftests/m9.py').read().split("G='circuit/garbler.go'")[0])
# loop forms a maintainer may switch to
run2(['C05w'],'compiler/ssa/streamer.go','range-int-concat',[('		case Concat:\n			for bit := 0; bit < len(out); bit++ {','		case Concat:\n			for bit := range len(out) {')],'silent')
run2(['C10t'],'gmw/triples.go','range-int-local-term',[('	// Local term\n	for i := 0; i < words; i++ {','	// Local term\n	for i := range words {')],'silent')
run2(['C07b'],'compiler/circuits/circ_binary.go','range-x',[('	for i := 0; i < len(x); i++ {','	for i := range x {')],'silent')
# seeded defects for the two source interpreters
B='compiler/circuits/circ_binary.go'
run2(['C07b'],B,'clear-inverts-x',[('		cc.INV(y[i], w)\n		cc.AddGate(cc.Calloc.BinaryGate(circuit.AND, x[i], w, r[i]))','		cc.INV(x[i], w)\n		cc.AddGate(cc.Calloc.BinaryGate(circuit.AND, y[i], w, r[i]))')],'fire')
run2(['C07b'],B,'xor-is-xnor',[('		cc.AddGate(cc.Calloc.BinaryGate(circuit.XOR, x[i], y[i], r[i]))','		cc.AddGate(cc.Calloc.BinaryGate(circuit.XNOR, x[i], y[i], r[i]))')],'fire')
run2(['C07b'],'compiler/circuits/circ_mux.go','mux-swapped',[('		cc.AddGate(cc.Calloc.BinaryGate(circuit.XOR, w2, f[i], out[i]))','		cc.AddGate(cc.Calloc.BinaryGate(circuit.XOR, w2, t[i], out[i]))')],'fire')
S='compiler/ssa/streamer.go'
run2(['C05w'],S,'lshift-off-by-one',[('				if bit-int(count) >= 0 && bit-int(count) < len(wires[0]) {\n					id = wires[0][bit-int(count)]','				if bit-int(count) > 0 && bit-int(count) < len(wires[0]) {\n					id = wires[0][bit-int(count)]')],'fire')
run2(['C05w'],S,'srshift-sign-from-bit0',[('				signWire = wires[0][len(wires[0])-1]','				signWire = wires[0][0]')],'fire')
run2(['C05w'],S,'concat-second-operand-index',[('					id = wires[1][bit-len(wires[0])]','					id = wires[1][bit-len(wires[1])]')],'fire')
