exec(open('/root/proto/mpcverif/selftests/m9.py').read().split("G='circuit/garbler.go'")[0])
I='ot/iknp.go'
# guard forms of the malicious-OT consistency check
run2(['C15'],I,'c15-guard-demorgan',[('	if !q0.Equal(t0) || !q1.Equal(t1) {\n		return nil, fmt.Errorf("OT extension check failed")\n	}\n\n	return result, nil','	if !(q0.Equal(t0) && q1.Equal(t1)) {\n		return nil, fmt.Errorf("OT extension check failed")\n	}\n\n	return result, nil')],'silent')
run2(['C15'],I,'c15-guard-positive',[('	if !q0.Equal(t0) || !q1.Equal(t1) {\n		return nil, fmt.Errorf("OT extension check failed")\n	}\n\n	return result, nil','	if q0.Equal(t0) && q1.Equal(t1) {\n		return result, nil\n	}\n	return nil, fmt.Errorf("OT extension check failed")')],'silent')
run2(['C15'],I,'c15-guard-two-ifs',[('	if !q0.Equal(t0) || !q1.Equal(t1) {\n		return nil, fmt.Errorf("OT extension check failed")\n	}\n\n	return result, nil','	if !q0.Equal(t0) {\n		return nil, fmt.Errorf("OT extension check failed")\n	}\n	if !q1.Equal(t1) {\n		return nil, fmt.Errorf("OT extension check failed")\n	}\n\n	return result, nil')],'silent')
run2(['C15'],I,'c15-guard-and',[('	if !q0.Equal(t0) || !q1.Equal(t1) {','	if !q0.Equal(t0) && !q1.Equal(t1) {')],'fire')
run2(['C15'],I,'c15-guard-one-half',[('	if !q0.Equal(t0) || !q1.Equal(t1) {','	if !q0.Equal(t0) {')],'fire')
G='circuit/garbler.go'
# C16: the result is decided by comparing the received label, never by its content
run2(['C16'],G,'c16-inline-equal',[('		boolBit, err := BitFromLabel(wire, label)\n		if err != nil {\n			return nil, err\n		}','		var boolBit bool\n		switch {\n		case label.Equal(wire.L0):\n		case label.Equal(wire.L1):\n			boolBit = true\n		default:\n			return nil, fmt.Errorf("invalid result label")\n		}')],'silent')
run2(['C16'],G,'c16-bit-from-content',[('		boolBit, err := BitFromLabel(wire, label)\n		if err != nil {\n			return nil, err\n		}','		_ = wire\n		boolBit := label.D0&1 == 1')],'fire')
run2(['C16'],G,'c16-ignore-error',[('		boolBit, err := BitFromLabel(wire, label)\n		if err != nil {\n			return nil, err\n		}','		boolBit, _ := BitFromLabel(wire, label)')],'fire')

H='circuit/helpers.go'
S='compiler/ssa/streamer.go'
run2(['C16'],H,'c16-helper-default-false',[('		return false, fmt.Errorf("unknown label %s for wire %v", label, wire)','		_ = fmt.Sprint()\n		return false, nil')],'fire')
run2(['C16'],H,'c16-helper-swapped-bits',[('	case label.Equal(wire.L0):\n		return false, nil\n	case label.Equal(wire.L1):\n		return true, nil','	case label.Equal(wire.L0):\n		return true, nil\n	case label.Equal(wire.L1):\n		return false, nil')],'fire')
run2(['C16'],S,'c16-stream-else-zero',[('		} else {\n			return nil, nil, fmt.Errorf("unknown label %s for result %d",\n				label, i)\n		}','		} else {\n			bit = 0\n		}')],'fire')
run2(['C16'],S,'c16-stream-switch-form',[('		if label.Equal(wire.L0) {\n			bit = 0\n		} else if label.Equal(wire.L1) {\n			bit = 1\n		} else {\n			return nil, nil, fmt.Errorf("unknown label %s for result %d",\n				label, i)\n		}','		switch {\n		case label.Equal(wire.L0):\n			bit = 0\n		case label.Equal(wire.L1):\n			bit = 1\n		default:\n			return nil, nil, fmt.Errorf("unknown label %s for result %d",\n				label, i)\n		}')],'silent')
run2(['C16'],S,'c16-stream-use-helper',[('		var bit uint\n		if label.Equal(wire.L0) {\n			bit = 0\n		} else if label.Equal(wire.L1) {\n			bit = 1\n		} else {\n			return nil, nil, fmt.Errorf("unknown label %s for result %d",\n				label, i)\n		}','		var bit uint\n		bb, err := circuit.BitFromLabel(wire, label)\n		if err != nil {\n			return nil, nil, err\n		}\n		if bb {\n			bit = 1\n		}')],'silent')
