exec(open('/root/proto/mpcverif/selftests/m9.py').read().split("G='circuit/garbler.go'")[0])
G='circuit/garbler.go'
E='circuit/evaluator.go'
S='compiler/ssa/streamer.go'
H='circuit/helpers.go'
# edits named by the property text of C02: input-label selection, output bit ordering
run2(['C02'],G,'c02-input-label-inverted',[('		n := LabelForBit(wire, inputs.Bit(i) == 1)','		n := LabelForBit(wire, inputs.Bit(i) == 0)')],'fire')
run2(['C02'],G,'c02-output-bit-order',[('		result = big.NewInt(0).SetBit(result, i, bit)','		result = big.NewInt(0).SetBit(result, circ.Outputs.Size()-1-i, bit)')],'fire')
run2(['C02'],G,'c02-result-bit-negated',[('		if boolBit {\n			bit = 1\n		}','		if !boolBit {\n			bit = 1\n		}')],'fire')
run2(['C02'],E,'c02-flag-shifted',[('			flags[i] = true','			flags[(i+1)%len(flags)] = true')],'fire')
run2(['C02'],E,'c02-flag-negated',[('		if inputs.Bit(i) == 1 {\n			flags[i] = true','		if inputs.Bit(i) != 1 {\n			flags[i] = true')],'fire')
run2(['C02'],H,'c02-labelforbit-swapped',[('	if bit {\n		return wire.L1\n	}\n	return wire.L0','	if bit {\n		return wire.L0\n	}\n	return wire.L1')],'fire')
run2(['C02'],S,'c02-stream-input-swapped',[('		if inputs.Bit(i) == 1 {\n			n = wire.L1\n		} else {\n			n = wire.L0\n		}','		if inputs.Bit(i) == 1 {\n			n = wire.L0\n		} else {\n			n = wire.L1\n		}')],'fire')
run2(['C02'],S,'c02-stream-result-order',[('		result.SetBit(result, i, bit)','		result.SetBit(result, prog.Outputs.Size()-1-i, bit)')],'fire')
# benign forms
run2(['C02'],G,'c02-benign-neq0',[('		n := LabelForBit(wire, inputs.Bit(i) == 1)','		n := LabelForBit(wire, inputs.Bit(i) != 0)')],'silent')
run2(['C02'],H,'c02-benign-labelforbit-else',[('	if bit {\n		return wire.L1\n	}\n	return wire.L0','	if !bit {\n		return wire.L0\n	}\n	return wire.L1')],'silent')
run2(['C02'],S,'c02-benign-stream-helper',[('		var n ot.Label\n		if inputs.Bit(i) == 1 {\n			n = wire.L1\n		} else {\n			n = wire.L0\n		}','		n := circuit.LabelForBit(wire, inputs.Bit(i) == 1)')],'silent')
