import subprocess,sys
def run(prop, f, name, old, new, expect='fire'):
    src=open('/repo/'+f).read()
    assert old in src, name
    subprocess.run(['python3','/root/proto/mpcverif/mut.py',prop,name,f,old.replace('\\','\\\\').replace('\n','\\n').replace('\t','\\t'),new.replace('\\','\\\\').replace('\n','\\n').replace('\t','\\t'),expect])
run('C10s','gmw/peer.go','no-accumulate','	p.shared.Xor(p.shared, share)\n','	_ = share\n')
run('C10s','gmw/network.go','no-own-input','	self.shared.Xor(self.shared, self.input)\n','')
run('C10s','gmw/network.go','setwires-wrong-party','	input := new(big.Int).SetBytes(data)\n	nw.setWires(o, input)','	input := new(big.Int).SetBytes(data)\n	nw.setWires(nw.self, input)')
run('C10s','gmw/network.go','send-running-output','			err := nw.sendOutput(peer, outputBuf)\n			if err != nil {\n				return err\n			}\n			err = nw.receiveOutput(peer)','			err := nw.sendOutput(peer, nw.output.Bytes())\n			if err != nil {\n				return err\n			}\n			err = nw.receiveOutput(peer)')
run('C10s','gmw/network.go','output-overwrite','		nw.output.Xor(nw.output, output)','		nw.output.Set(output)')
run('C10s','gmw/peer.go','send-other-buf','	err = o.online.SendData(p.randBuf)','	err = o.online.SendData(share.Bytes())','silent')
