import subprocess,sys
def run(prop, f, name, old, new, expect='fire'):
    src=open('/repo/'+f).read()
    assert old in src, name
    subprocess.run(['python3','/root/proto/mpcverif/mut.py',prop,name,f,old.replace('\\','\\\\').replace('\n','\\n').replace('\t','\\t'),new.replace('\\','\\\\').replace('\n','\\n').replace('\t','\\t'),expect])
run('C14t','types/types.go','alias','	"uint":        TUint,\n','	"uint":        TUint,\n	"byte":        TUint,\n')
run('C14t','types/parse.go','uint-as-int','		case "u", "uint":\n			info.Type = TUint','		case "u", "uint":\n			info.Type = TInt')
run('C14t','types/types.go','arr-format','		return fmt.Sprintf("[%d]%s", i.ArraySize, i.ElementType)','		return fmt.Sprintf("%s[%d]", i.ElementType, i.ArraySize)')
run('C14t','types/types.go','rename','	"string":      TString,','	"str":         TString,')
