import subprocess,sys
def run(prop, f, name, old, new, expect='fire'):
    src=open('/repo/'+f).read()
    assert old in src, name
    subprocess.run(['python3','/root/proto/mpcverif/mut.py',prop,name,f,old.replace('\\','\\\\').replace('\n','\\n').replace('\t','\\t'),new.replace('\\','\\\\').replace('\n','\\n').replace('\t','\\t'),expect])
E='sha2pc/encoding.go'
run('C18y',E,'len-ge','	if len(data) != round3PayloadLen {\n		return Round3Payload{}, fmt.Errorf("sha2pc: round3 payload mismatch','	if len(data) < round3PayloadLen-ciphertextBytes {\n		return Round3Payload{}, fmt.Errorf("sha2pc: round3 payload mismatch')
run('C18y',E,'skip-offset','	offset += sessionIDBytes\n	copy(payload.Key[:]','	offset += sessionIDBytes + 1\n	copy(payload.Key[:]')
run('C18y',E,'wrong-part','	end = offset + outputHintBytes\n	payload.OutputHints','	end = offset + garblerInputLabelBytes\n	payload.OutputHints')
run('C18y','sha2pc/params.go','const-sum','	round3PayloadLen = len(magicRound3) + sessionIDBytes + garblingKeyBytes +','	round3PayloadLen = len(magicRound3) + sessionIDBytes + garblingKeyBytes + 1 +')
run('C18y','sha2pc/evaluator.go','state-write','	if msg.SessionID != state.SessionID {','	state.SessionID++\n	if msg.SessionID != state.SessionID-1 {')
