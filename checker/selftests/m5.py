import subprocess,sys
def run(prop, f, name, old, new, expect='fire'):
    src=open('/repo/'+f).read()
    assert old in src, name
    subprocess.run(['python3','/root/proto/mpcverif/mut.py',prop,name,f,old.replace('\\','\\\\').replace('\n','\\n').replace('\t','\\t'),new.replace('\\','\\\\').replace('\n','\\n').replace('\t','\\t'),expect])
N='gmw/network.go'
run('C10b',N,'swap-ab','			(dOpen[w] & nw.triples.B[w]) ^\n			(eOpen[w] & nw.triples.A[w])','			(dOpen[w] & nw.triples.A[w]) ^\n			(eOpen[w] & nw.triples.B[w])')
run('C10b',N,'d-noA','nw.andD[w] = andA ^ nw.triples.A[w]','nw.andD[w] = andA ^ nw.triples.B[w]')
run('C10b',N,'guard-lt2','		if self.id == 0 {\n			nw.andZ[w] ^= (dOpen[w]','		if self.id < 2 {\n			nw.andZ[w] ^= (dOpen[w]')
run('C10b',N,'inputs-swapped','			b := nw.wires.Bit(int(gate.Input1))\n			if b == 1 {\n				andB |= (1 << ofs)','			b := nw.wires.Bit(int(gate.Input0))\n			if b == 1 {\n				andB |= (1 << ofs)')
run('C10b',N,'benign-temps','		nw.andZ[w] = nw.triples.C[w] ^\n			(dOpen[w] & nw.triples.B[w]) ^\n			(eOpen[w] & nw.triples.A[w])','		db := dOpen[w] & nw.triples.B[w]\n		ea := eOpen[w] & nw.triples.A[w]\n		nw.andZ[w] = nw.triples.C[w] ^ db\n		nw.andZ[w] ^= ea','silent')
run('C10b',N,'benign-guard1','		if self.id == 0 {\n			nw.andZ[w] ^= (dOpen[w]','		if self.id == 1 {\n			nw.andZ[w] ^= (dOpen[w]','silent')
T='gmw/triples.go'
run('C10t',T,'benign-helper','			for w := 0; w < words; w++ {\n				c[w] ^= rBits[w]\n			}\n\n		} else {','			xorBitvec(c, rBits)\n\n		} else {','silent')
run('C10t',T,'benign-temp','			for w := 0; w < words; w++ {\n				c[w] ^= sBits[w] ^ (u[w] & v[w])\n			}\n\n			// ====','			for w := 0; w < words; w++ {\n				uv := u[w] & v[w]\n				c[w] ^= sBits[w]\n				c[w] ^= uv\n			}\n\n			// ====','silent')
