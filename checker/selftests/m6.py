import subprocess,sys
def run(prop, f, name, old, new, expect='fire'):
    src=open('/repo/'+f).read()
    assert old in src, name
    subprocess.run(['python3','/root/proto/mpcverif/mut.py',prop,name,f,old.replace('\\','\\\\').replace('\n','\\n').replace('\t','\\t'),new.replace('\\','\\\\').replace('\n','\\n').replace('\t','\\t'),expect])
G='circuit/stream_garble.go'
# helper extraction for the 32-bit three-wire form (needs the helper itself: see m12.py)
