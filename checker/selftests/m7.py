import subprocess,sys
def run(prop, f, name, old, new, expect='fire'):
    src=open('/repo/'+f).read()
    assert old in src, name
    subprocess.run(['python3','/root/proto/mpcverif/mut.py',prop,name,f,old.replace('\\','\\\\').replace('\n','\\n').replace('\t','\\t'),new.replace('\\','\\\\').replace('\n','\\n').replace('\t','\\t'),expect])
F='p2p/protocol.go'
imp='import (\n	"io"\n'
imp2='import (\n	"encoding/binary"\n	"io"\n'
def run2(name, pairs, expect):
    src=open('/repo/'+F).read()
    import tempfile,shutil,os
    tmp=tempfile.mkdtemp(prefix='mpcmut-')
    subprocess.run(['rsync','-a','--exclude','.git','--exclude','pkg','--exclude','docs','/repo/',tmp+'/'],check=True)
    s=src
    for o,n in pairs:
        assert o in s, (name,o[:30])
        s=s.replace(o,n,1)
    open(tmp+'/'+F,'w').write(s)
    out=tempfile.mkdtemp(prefix='mpcout-')
    r=subprocess.run(['/root/proto/mpcverif/bin/mpcverif','-repo',tmp,'-prop','C11t','-verif',out],capture_output=True,text=True)
    fired=r.returncode==1
    lines=[l for l in r.stdout.splitlines() if l.startswith('  ')]
    print(('OK ' if fired==(expect=='fire') else 'BAD'),name,'exit',r.returncode,(lines[0][:170] if lines else r.stdout.strip().splitlines()[-1][:120]))
    shutil.rmtree(tmp); shutil.rmtree(out)
put32=('	c.WriteBuf[c.WritePos+0] = byte((uint32(val) >> 24) & 0xff)\n	c.WriteBuf[c.WritePos+1] = byte((uint32(val) >> 16) & 0xff)\n	c.WriteBuf[c.WritePos+2] = byte((uint32(val) >> 8) & 0xff)\n	c.WriteBuf[c.WritePos+3] = byte(uint32(val) & 0xff)\n','	binary.BigEndian.PutUint32(c.WriteBuf[c.WritePos:], uint32(val))\n')
get32=('	val := uint32(c.ReadBuf[c.ReadStart+0])\n	val <<= 8\n	val |= uint32(c.ReadBuf[c.ReadStart+1])\n	val <<= 8\n	val |= uint32(c.ReadBuf[c.ReadStart+2])\n	val <<= 8\n	val |= uint32(c.ReadBuf[c.ReadStart+3])\n	c.ReadStart += 4\n','	val := binary.BigEndian.Uint32(c.ReadBuf[c.ReadStart:])\n	c.ReadStart += 4\n')
run2('benign-binary-put',[(imp,imp2),put32],'silent')
run2('benign-binary-both',[(imp,imp2),put32,get32],'silent')
run2('little-endian-put',[(imp,imp2),(put32[0],put32[1].replace('BigEndian','LittleEndian'))],'fire')
run2('binary-put16-in-32',[(imp,imp2),(put32[0],'	binary.BigEndian.PutUint16(c.WriteBuf[c.WritePos:], uint16(val))\n')],'fire')
