import subprocess,sys,tempfile,shutil
def run2(prop, f, name, pairs, expect):
    src=open('/repo/'+f).read()
    tmp=tempfile.mkdtemp(prefix='mpcmut-')
    subprocess.run(['rsync','-a','--exclude','.git','--exclude','pkg','--exclude','docs','/repo/',tmp+'/'],check=True)
    s=src
    for o,n in pairs:
        assert o in s, (name,o[:40])
        s=s.replace(o,n,1)
    open(tmp+'/'+f,'w').write(s)
    out=tempfile.mkdtemp(prefix='mpcout-')
    shutil.copy('/root/proto/mpcverif/known_findings.proto.txt', out)
    r=subprocess.run(['/root/proto/mpcverif/bin/mpcverif','-repo',tmp,'-prop',prop,'-verif',out],capture_output=True,text=True)
    fired=r.returncode==1
    lines=[l for l in r.stdout.splitlines() if l.startswith('  ')]
    print(('OK ' if fired==(expect=='fire') else 'BAD'),prop,name,'exit',r.returncode,(lines[0][:200] if lines else r.stdout.strip().splitlines()[-1][:120]))
    shutil.rmtree(tmp); shutil.rmtree(out)
E='sha2pc/encoding.go'
run2('C18g',E,'benign-bytes-equal',[('	if string(magic) != magicRound2 {\n		return Round2Payload{}, fmt.Errorf("invalid round2 magic")','	if !bytes.Equal(magic, []byte(magicRound2)) {\n		return Round2Payload{}, fmt.Errorf("invalid round2 magic")')],'silent')
run2('C18g',E,'bytes-equal-wrong',[('	if string(magic) != magicRound2 {\n		return Round2Payload{}, fmt.Errorf("invalid round2 magic")','	if !bytes.Equal(magic, []byte(magicRound1)) {\n		return Round2Payload{}, fmt.Errorf("invalid round2 magic")')],'fire')
N='p2p/network.go'
run2('C19m',N,'benign-defer-closure',[('''	nw.m.Lock()

	if nw.need[connID] == 0 {
		nw.m.Unlock()
		return fmt.Errorf("%v: too many connections for ID %v from peer %v",
			nw.Self, connID, id)
	}
	nw.need[connID]--
	nw.c.Broadcast()
	nw.m.Unlock()
''','''	err = func() error {
		nw.m.Lock()
		defer nw.m.Unlock()
		if nw.need[connID] == 0 {
			return fmt.Errorf("%v: too many connections for ID %v from peer %v",
				nw.Self, connID, id)
		}
		nw.need[connID]--
		nw.c.Broadcast()
		return nil
	}()
	if err != nil {
		return err
	}
''')],'silent')
run2('C19m',N,'benign-split-skip',[('''		if peer.ID == 0 {
			if connID == 0 {
				continue
			}
		} else if peer.ID <= self.ID {
			continue
		}''','''		if peer.ID == 0 && connID == 0 {
			continue
		}
		if peer.ID != 0 && peer.ID <= self.ID {
			continue
		}''')],'silent')
S='compiler/ssa/streamer.go'
run2('C05c',S,'alt-fix-key',[('			circ, ok := cache[instr.StringTyped()]','			circ, ok := cache[instr.String()]'),('					cache[instr.StringTyped()] = circ','					cache[instr.String()] = circ')],'silent')
