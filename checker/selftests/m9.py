import subprocess,sys,tempfile,shutil
def run2(props, f, name, pairs, expect='silent'):
    src=open('/repo/'+f).read()
    tmp=tempfile.mkdtemp(prefix='mpcmut-')
    subprocess.run(['rsync','-a','--exclude','.git','--exclude','pkg','--exclude','docs','/repo/',tmp+'/'],check=True)
    s=src
    for o,n in pairs:
        assert o in s, (name,o[:40])
        s=s.replace(o,n,1)
    open(tmp+'/'+f,'w').write(s)
    b=subprocess.run(['go','build','./...'],cwd=tmp,capture_output=True,text=True)
    if b.returncode!=0:
        print('NOBUILD',name,b.stderr[:300]); shutil.rmtree(tmp); return
    for prop in props:
        out=tempfile.mkdtemp(prefix='mpcout-')
        shutil.copy('/root/proto/mpcverif/known_findings.proto.txt', out)
        r=subprocess.run(['/root/proto/mpcverif/bin/mpcverif','-repo',tmp,'-prop',prop,'-verif',out],capture_output=True,text=True)
        base=subprocess.run(['/root/proto/mpcverif/bin/mpcverif','-repo','/repo','-prop',prop,'-verif',out],capture_output=True,text=True)
        # compare the set of violated/undecided lines with the unchanged tree
        def viol(o): return sorted(set(l.split('[')[0].strip() for l in o.splitlines() if l.startswith('  ')))
        new=[v for v in viol(r.stdout) if v not in viol(base.stdout)]
        fired=len(new)>0
        print(('OK ' if fired==(expect=='fire') else 'BAD'),prop,name,(new[0][:200] if new else 'no new reports'))
        shutil.rmtree(out)
    shutil.rmtree(tmp)
import os
os.environ['PATH']='/opt/veriftools/go1.26.8/bin:'+os.environ['PATH']; os.environ['GOTOOLCHAIN']='local'; os.environ['GOFLAGS']='-mod=mod'; os.environ['GOPROXY']='off'
G='circuit/garbler.go'
# 1. Garbler: send own input labels directly in the selection loop (no n1 slice)
run2(['C02','C04','C16'],G,'garbler-inline-send',[('''	var n1 []ot.Label
	for i := 0; i < int(circ.Inputs[0].Type.Bits); i++ {
		wire := garbled.Wires[i]

		n := LabelForBit(wire, inputs.Bit(i) == 1)

		n1 = append(n1, n)
	}

	// Send our inputs.
	for idx, i := range n1 {
		if verbose && false {
			fmt.Printf("N1[%d]:\\t%s\\n", idx, i)
		}
		if err := conn.SendLabel(i, &labelData); err != nil {
			return nil, err
		}
	}
''','''	nIn := int(circ.Inputs[0].Type.Bits)
	for i := 0; i < nIn; i++ {
		n := LabelForBit(garbled.Wires[i], inputs.Bit(i) == 1)
		if err := conn.SendLabel(n, &labelData); err != nil {
			return nil, err
		}
	}
''')])
# 2. Garbler: hoist table sending into a helper
run2(['C02','C04'],G,'garbler-helper-tables',[('''	var labelData ot.LabelData
	for _, data := range garbled.Gates {
		if err := conn.SendUint32(len(data)); err != nil {
			return nil, err
		}
		for _, d := range data {
			if err := conn.SendLabel(d, &labelData); err != nil {
				return nil, err
			}
		}
	}
''','''	var labelData ot.LabelData
	if err := sendTables(conn, garbled.Gates, &labelData); err != nil {
		return nil, err
	}
'''),('// Garbler runs','''func sendTables(conn *p2p.Conn, tables [][]ot.Label, ld *ot.LabelData) error {
	for _, data := range tables {
		if err := conn.SendUint32(len(data)); err != nil {
			return err
		}
		for _, d := range data {
			if err := conn.SendLabel(d, ld); err != nil {
				return err
			}
		}
	}
	return nil
}

// Garbler runs''')])
