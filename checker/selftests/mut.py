#!/usr/bin/env python3
"""mut.py <prop> <name> <file> <old> <new> [expect=fire|silent]: apply one textual mutation to a scratch copy and run the check."""
import os, shutil, subprocess, sys, tempfile
prop, name, f, old, new = sys.argv[1:6]
expect = sys.argv[6] if len(sys.argv) > 6 else "fire"
tmp = tempfile.mkdtemp(prefix="mpcmut-")
try:
    subprocess.run(["rsync", "-a", "--exclude", ".git", "--exclude", "pkg", "--exclude", "docs", os.environ.get("BASE", "/repo") + "/", tmp + "/"], check=True)
    p = os.path.join(tmp, f)
    s = open(p).read()
    old = old.encode().decode("unicode_escape")
    new = new.encode().decode("unicode_escape")
    if s.count(old) < 1:
        print(f"[{name}] PATTERN NOT FOUND"); sys.exit(3)
    open(p, "w").write(s.replace(old, new, 1))
    env = dict(os.environ, MPCVERIF_GOBIN="/opt/veriftools/go1.26.8/bin")
    out = tempfile.mkdtemp(prefix="mpcout-")
    if os.path.exists("/tmp/vout/known_findings.txt"):
        shutil.copy("/tmp/vout/known_findings.txt", out)
    r = subprocess.run(["/root/proto/mpcverif/bin/mpcverif", "-repo", tmp, "-prop", prop, "-verif", out], capture_output=True, text=True, env=env)
    lines = [l for l in r.stdout.splitlines() if l.startswith("  ")]
    fired = r.returncode == 1
    verdict = "OK " if fired == (expect == "fire") else "BAD"
    print(f"{verdict} [{prop} {name}] expect={expect} exit={r.returncode} :: {lines[0].strip()[:170] if lines else r.stdout.strip().splitlines()[-1][:170]}")
    shutil.rmtree(out, ignore_errors=True)
finally:
    shutil.rmtree(tmp, ignore_errors=True)
