exec(open('/root/proto/mpcverif/selftests/rename.py').read())
import sys
# a harmless statement at the top of every loop body and every if body
B=[
 (['C05','C03','C12'],'compiler/ssa/streamer.go'),
 (['C10'],'gmw/triples.go'),
 (['C10','C19'],'gmw/network.go'),
 (['C10'],'gmw/peer.go'),
 (['C07','C09'],'compiler/circuits/circ_binary.go'),
 (['C07'],'compiler/circuits/circ_adder.go'),
 (['C19','C05','C11'],'p2p/network.go'),
 (['C11'],'p2p/protocol.go'),
 (['C06','C15'],'ot/iknp.go'),
 (['C06','C15','C02'],'ot/cot.go'),
 (['C02','C04','C16','C17','C01'],'circuit/garbler.go'),
 (['C02','C04','C16'],'circuit/evaluator.go'),
 (['C05','C01'],'circuit/stream_garble.go'),
 (['C14'],'circuit/parser.go'),
 (['C14'],'circuit/marshal.go'),
 (['C18'],'sha2pc/encoding.go'),
 (['C13'],'result.go'),
 (['C08'],'compiler/ast/package.go'),
 (['C20'],'ot/rsa.go'),
 (['C18','C16','C06'],'ot/co.go'),
]
sel=sys.argv[1:]
for props,f in B:
    if sel and f not in sel: continue
    rename(props,f,'noisecall:'+f,[(r'(?m)^(\t+)((?:for|if) [^\n]*\{)\n', r'\1\2\n\1\t_ = fmt.Sprint("dbg")\n')])
