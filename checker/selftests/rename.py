BASE="/tmp/fixed"
import re,subprocess,tempfile,shutil,os,sys
os.environ['PATH']='/opt/veriftools/go1.26.8/bin:'+os.environ['PATH']
def rename(props, f, name, subs):
    tmp=tempfile.mkdtemp(prefix='mpcmut-')
    subprocess.run(['rsync','-a','--exclude','.git','--exclude','pkg','--exclude','docs',BASE+'/',tmp+'/'],check=True)
    s=open(tmp+'/'+f).read()
    for pat,rep in subs:
        s,n=re.subn(pat,rep,s)
        assert n>0,(name,pat)
    open(tmp+'/'+f,'w').write(s)
    b=subprocess.run(['go','build','./...'],cwd=tmp,capture_output=True,text=True)
    if b.returncode!=0:
        print('NOBUILD',name,b.stderr[:300]); shutil.rmtree(tmp); return
    for prop in props:
        out=tempfile.mkdtemp(prefix='mpcout-')
        shutil.copy('/root/proto/mpcverif/known_findings.proto.txt', out+'/known_findings.txt')
        def viol(tree):
            r=subprocess.run(['/root/proto/mpcverif/bin/mpcverif','-repo',tree,'-prop',prop,'-verif',out],capture_output=True,text=True)
            return sorted(set(re.sub(r':\d+','',l.split('[')[0].strip()) for l in r.stdout.splitlines() if l.startswith('  ')))
        a=viol(tmp); b0=viol(BASE)
        new=[v for v in a if v not in b0]
        print('OK ' if not new else 'BAD',prop,name,(new[0][:220] if new else ''))
        shutil.rmtree(out)
    shutil.rmtree(tmp)
