exec(open('/root/proto/mpcverif/selftests/rename.py').read())
import sys
B=[
 (['C01','C02'],'circuit/garble.go',[(r'\bdata\b','dt'),(r'\bgate\b','gt')]),
 (['C01','C02'],'circuit/eval.go',[(r'\bdata\b','dt'),(r'\bgate\b','gt')]),
 (['C05'],'circuit/stream_garble.go',[(r'\bstream\b','strm'),(r'\bgate\b','gt')]),
 (['C05','C11'],'circuit/stream_evaluator.go',[(r'\bconn\b','cn')]),
 (['C02','C04','C16'],'circuit/evaluator.go',[(r'\bconn\b','cn'),(r'\bwires\b','ws')]),
 (['C14'],'circuit/parser.go',[(r'\bheader\b','hdr'),(r'\bgate\b','gt'),(r'\barg\b','ioa')]),
 (['C15','C06'],'ot/cot.go',[(r'\bresult\b','res')]),
 (['C06'],'ot/mitccrh.go',[(r'\bm\b','mc')]),
 (['C18','C16'],'ot/co.go',[(r'\bmask\b','pad')]),
 (['C10'],'gmw/triples.go',[(r'\bpeer\b','pr')]),
 
 (['C10','C19'],'gmw/network.go',[(r'\bnw\b','netw'),(r'\bpeer\b','pr')]),
 (['C05','C03','C12'],'compiler/ssa/streamer.go',[(r'\binstr\b','ins')]),
 (['C07','C09'],'compiler/circuits/circ_multiplier.go',[(r'\bz\b','outw'),(r'\bcc\b','comp')]),
 (['C07'],'compiler/circuits/circ_comparators.go',[(r'\bflags\b','fl'),(r'\bcc\b','comp')]),
 (['C18'],'sha2pc/encoding.go',[(r'\breader\b','rd'),(r'\braw\b','rawb')]),
 (['C13'],'result.go',[(r'\bresult\b','res'),(r'\boutput\b','outp')]),
 (['C08'],'compiler/ast/package.go',[(r'\bpkg\b','pk')]),
 (['C12'],'compiler/ast/eval.go',[(r'\blval\b','lv'),(r'\brval\b','rv')]),
 (['C11','C19'],'p2p/protocol.go',[(r'\bc\b','cn')]),
 (['C14'],'types/parse.go',[(r'\binfo\b','ti')]),
 (['C17'],'circuit/garbler.go',[(r'\bconn\b','cn')]),
 (['C20'],'ot/rsa.go',[(r'\bs\b','snd')]),
]
sel=sys.argv[1:]
for props,f,subs in B:
    if sel and f not in sel: continue
    try:
        rename(props,f,'rename:'+f,subs)
    except AssertionError as e:
        print('NOPAT',f,e)
