#!/bin/bash
# run every registered prototype check against a tree, in parallel
tree=$1; out=$2; mkdir -p $out
cp /root/proto/mpcverif/known_findings.proto.txt $out/known_findings.txt 2>/dev/null
keys=$(grep -o '^\s*"C[0-9a-z]*"' /root/proto/mpcverif/cmd/mpcverif/main.go | tr -d ' \t"' | sort -u)
for k in $keys; do
  ( s=$(date +%s.%N); /root/proto/mpcverif/bin/mpcverif -repo $tree -prop $k -verif $out > $out/$k.log 2>&1; rc=$?; e=$(date +%s.%N); printf "%-6s rc=%d %5.1fs %s\n" $k $rc $(echo "$e - $s" | bc) "$(grep -v '^VIOLATION\|^KNOWN\|^  ' $out/$k.log | tail -1 | cut -c1-150)" ) &
  while [ $(jobs -r | wc -l) -ge 8 ]; do sleep 0.2; done
done
wait
