#!/bin/sh
cd /root/proto/mpcverif
./mut.py C01 eval-inv-no-idpp circuit/eval.go '\t\t\toutput = decrypt(alg, a, ot.Label{}, id, c, &data)\n\t\t\tid++' '\t\t\toutput = decrypt(alg, a, ot.Label{}, id, c, &data)'
./mut.py C01 xnor-unswapped circuit/garble.go '\t\tc = ot.Wire{\n\t\t\tL0: l1,\n\t\t\tL1: l0,\n\t\t}' '\t\tc = ot.Wire{\n\t\t\tL0: l0,\n\t\t\tL1: l1,\n\t\t}'
./mut.py C01 slab-or-2 circuit/garble.go '\t\tcase OR:\n\t\t\tslabSize += 3' '\t\tcase OR:\n\t\t\tslabSize += 2'
./mut.py C01 compute-xnor circuit/computer.go 'if wires[gate.Input0]^wires[gate.Input1] == 0 {\n\t\t\t\tresult = 1' 'if wires[gate.Input0]^wires[gate.Input1] == 0 {\n\t\t\t\tresult = 0'
./mut.py C01 bitfromlabel-swap circuit/helpers.go 'case label.Equal(wire.L0):\n\t\treturn false, nil' 'case label.Equal(wire.L0):\n\t\treturn true, nil'
./mut.py C01 labelforbit-swap circuit/helpers.go 'if bit {\n\t\treturn wire.L1\n\t}\n\treturn wire.L0' 'if bit {\n\t\treturn wire.L0\n\t}\n\treturn wire.L1'
./mut.py C01 decrypt-drop-k circuit/garble.go '\tc.Xor(crypted)\n\tc.Xor(k)' '\tc.Xor(crypted)'
./mut.py C01 makelabels-noxor circuit/garble.go '\tl1 := l0\n\tl1.Xor(r)\n\n\treturn ot.Wire{' '\tl1 := l0\n\n\treturn ot.Wire{'
./mut.py C01 eval-and-row-guard circuit/eval.go 'if len(row) != 2 {' 'if len(row) != 3 {'
./mut.py C01 and-tg-no-r circuit/garble.go '\t\tif pb {\n\t\t\ttg.Xor(r)\n\t\t}\n\t\twg0 := encryptHalf(enc, a.L0, j0, data)' '\t\twg0 := encryptHalf(enc, a.L0, j0, data)'
./mut.py C01 inv-idx circuit/garble.go 'table[idxUnary(a.L1)] = encrypt(enc, a.L1, ot.Label{}, c.L0, id, data)\n\n\t\tl0Index := idxUnary(a.L0)' 'table[idxUnary(a.L1)] = encrypt(enc, a.L1, ot.Label{}, c.L0, id, data)\n\n\t\tl0Index := idxUnary(a.L1)'
./mut.py C01 benign-encrypt-cL0 circuit/garble.go 'table[idx(a.L0, b.L1)] = encrypt(enc, a.L0, b.L1, c.L1, id, data)' 'table[idx(a.L0, b.L1)] = encrypt(enc, a.L0, b.L1, c.L0, id, data)' silent
./mut.py C01 benign-reorder circuit/garble.go '\t\tpa := a.L0.S()\n\t\tpb := b.L0.S()' '\t\tpb := b.L0.S()\n\t\tpa := a.L0.S()' silent
./mut.py C01 benign-eval-temp circuit/eval.go '\t\t\toutput = wg\n\t\t\toutput.Xor(we)' '\t\t\ttmpOut := wg\n\t\t\ttmpOut.Xor(we)\n\t\t\toutput = tmpOut' silent
