#!/bin/sh
cd /root/proto/mpcverif
./mut.py C02 rsa-recv-drop ot/rsa.go '\t\t\t_, err = r.io.ReceiveData()\n\t\t\tif err != nil {\n\t\t\t\treturn err\n\t\t\t}\n\t\t\txb, err = ReceiveBigInt(r.io)' '\t\t\txb, err = ReceiveBigInt(r.io)'
./mut.py C02 rsa-send-noflush ot/rsa.go '\t\tif err := r.io.SendData(x1); err != nil {\n\t\t\treturn err\n\t\t}\n\t\tif err := r.io.Flush(); err != nil {\n\t\t\treturn err\n\t\t}' '\t\tif err := r.io.SendData(x1); err != nil {\n\t\t\treturn err\n\t\t}'
./mut.py C02 evaluator-one-u32 circuit/evaluator.go '\t// Wire count.\n\tif err := conn.SendUint32(int(circ.Inputs[1].Type.Bits)); err != nil {\n\t\treturn nil, err\n\t}\n' ''
./mut.py C02 rsa-init-noflush ot/rsa.go '\tif err := io.SendUint32(r.pub.E); err != nil {\n\t\treturn err\n\t}\n\n\treturn io.Flush()' '\tif err := io.SendUint32(r.pub.E); err != nil {\n\t\treturn err\n\t}\n\n\treturn nil'
./mut.py C02 evaluator-noflush-before-ot circuit/evaluator.go '\tif err := conn.Flush(); err != nil {\n\t\treturn nil, err\n\t}\n\tflags := make' '\tflags := make'
./mut.py C02 cot-send-noflush ot/cot.go '\t\t}\n\t}\n\treturn cot.io.Flush()\n}\n\n// Receive implements OT.Receive.' '\t\t}\n\t}\n\treturn nil\n}\n\n// Receive implements OT.Receive.'
./mut.py C02 garbler-label-as-data circuit/garbler.go '\t\tif err := conn.SendLabel(i, &labelData); err != nil {' '\t\tif err := conn.SendData(i.Bytes(&labelData)); err != nil {'
./mut.py C02 co-send-one-coord ot/co.go '\tif err := co.io.SendData(setup.Ay.Bytes()); err != nil {\n\t\treturn err\n\t}\n' ''
./mut.py C02 iknp-mal-skip-x ot/iknp.go '\tif err := r.io.SendLabel(x, &ld); err != nil {\n\t\treturn err\n\t}\n' ''
./mut.py C02 benign-hoist circuit/evaluator.go '\tstart := int(circ.Inputs[0].Type.Bits)\n\tend := start + int(circ.Inputs[1].Type.Bits)' '\tn0 := int(circ.Inputs[0].Type.Bits)\n\tstart := n0\n\tend := start + int(circ.Inputs[1].Type.Bits)' silent
./mut.py C02 benign-helper circuit/garbler.go '\tdata := result.Bytes()\n\tif err := conn.SendData(data); err != nil {' '\tif err := conn.SendData(result.Bytes()); err != nil {' silent
