#!/bin/sh
# seeded defects in the streaming pair; all still compile
M="python3 /root/proto/mpcverif/mut.py C05f"
G=circuit/stream_garble.go
E=circuit/stream_evaluator.go
$M flag-swap $G 'if aTmp {\n\t\top |= 0b10000000' 'if aTmp {\n\t\top |= 0b01000000' &
$M ctmp-missing $G 'if cTmp {\n\t\top |= 0b00100000' 'if cTmp {\n\t\top |= 0b00000000' &
$M width-cond $G 'aIndex <= 0xffff && bIndex <= 0xffff && cIndex <= 0xffff' 'aIndex <= 0xffff && bIndex <= 0xffff' &
$M ab-swap16 $G 'bo.PutUint16(buf[*bufpos+0:], uint16(aIndex))\n\t\t\tbo.PutUint16(buf[*bufpos+2:], uint16(bIndex))' 'bo.PutUint16(buf[*bufpos+0:], uint16(bIndex))\n\t\t\tbo.PutUint16(buf[*bufpos+2:], uint16(aIndex))' &
$M xnor-unswapped $G 'c = ot.Wire{\n\t\t\tL0: l1,\n\t\t\tL1: l0,' 'c = ot.Wire{\n\t\t\tL0: l0,\n\t\t\tL1: l1,' &
$M and-j1 $G 'j1 := *idp + 1\n\t\t*idp = *idp + 2' 'j1 := *idp + 1\n\t\t*idp = *idp + 1' &
$M or-tablestart $G 'tableStart = 1\n\t\ttableCount = 3' 'tableStart = 0\n\t\ttableCount = 3' &
$M inv-rowxor $G 'if i == l0Index {\n\t\t\t\ttable[i].Xor(c.L1)' 'if i == l0Index {\n\t\t\t\ttable[i].Xor(c.L0)' &
wait
$M ev-flag $E 'if gop&0b01000000 != 0 {\n\t\t\t\t\tbTmp = true' 'if gop&0b00100000 != 0 {\n\t\t\t\t\tbTmp = true' &
$M ev-width $E 'if gop&0b00010000 != 0 {\n\t\t\t\t\trecvWire = conn.ReceiveUint16' 'if gop&0b00010000 == 0 {\n\t\t\t\t\trecvWire = conn.ReceiveUint16' &
$M ev-invcount $E 'case INV:\n\t\t\t\t\ttableCount = 1' 'case INV:\n\t\t\t\t\ttableCount = 2' &
$M ev-and-id $E 'j1 := id + 1\n\t\t\t\t\tid += 2' 'j1 := id + 1\n\t\t\t\t\tid += 1' &
$M ev-xnor $E 'case XOR, XNOR:\n\t\t\t\t\ta.Xor(b)\n\t\t\t\t\toutput = a' 'case XOR, XNOR:\n\t\t\t\t\tb.Xor(a)\n\t\t\t\t\toutput = b' silent &
$M ev-set-tmp $E 'streaming.Set(cTmp, Wire(cIndex), output)' 'streaming.Set(aTmp, Wire(cIndex), output)' &
$M ev-get-b $E 'b = streaming.Get(bTmp, Wire(bIndex))' 'b = streaming.Get(bTmp, Wire(aIndex))' &
wait
