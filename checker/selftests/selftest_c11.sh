#!/bin/sh
M="python3 /root/proto/mpcverif/mut.py C11t"
F=p2p/protocol.go
$M guard-narrow $F 'func (c *Conn) SendUint32(val int) error {\n\tif c.WritePos+4 >' 'func (c *Conn) SendUint32(val int) error {\n\tif c.WritePos+2 >' &
$M fill-short $F 'if err := c.Fill(4); err != nil' 'if err := c.Fill(2); err != nil' &
$M byteorder $F 'c.WriteBuf[c.WritePos+0] = byte((uint32(val) >> 8) & 0xff)\n\tc.WriteBuf[c.WritePos+1] = byte(uint32(val) & 0xff)' 'c.WriteBuf[c.WritePos+1] = byte((uint32(val) >> 8) & 0xff)\n\tc.WriteBuf[c.WritePos+0] = byte(uint32(val) & 0xff)' &
$M advance $F 'c.ReadStart += 2\n' 'c.ReadStart += 4\n' &
$M label-guard $F 'if c.ReadStart+len(data) > c.ReadEnd {\n\t\tif err := c.Fill(len(data))' 'if c.ReadStart+8 > c.ReadEnd {\n\t\tif err := c.Fill(len(data))' &
$M flush-keepbuf $F '\t\tc.WriteBuf = next\n' '\t\t_ = next\n' &
$M flush-nopos $F '\t\tc.WriteBuf = next\n\t\tc.WritePos = 0\n' '\t\tc.WriteBuf = next\n' &
$M recycle-short $F 'c.fromWriter <- buf[0:cap(buf)]' 'c.fromWriter <- buf' &
wait
$M close-noflush $F 'func (c *Conn) Close() error {\n\tif err := c.Flush(); err != nil {\n\t\treturn err\n\t}' 'func (c *Conn) Close() error {' &
$M close-nodrain $F '\tfor buf := range c.fromWriter {\n\t\t_ = buf\n\t}\n' '' &
$M close-early $F '\tclose(c.toWriter)\n\tfor buf := range c.fromWriter {\n\t\t_ = buf\n\t}\n\tif c.writerErr != nil {\n\t\treturn c.writerErr\n\t}\n\tcloser, ok := c.conn.(io.Closer)\n\tif ok {\n\t\treturn closer.Close()\n\t}\n\treturn nil' '\tcloser, ok := c.conn.(io.Closer)\n\tif ok {\n\t\tcloser.Close()\n\t}\n\tclose(c.toWriter)\n\tfor buf := range c.fromWriter {\n\t\t_ = buf\n\t}\n\treturn c.writerErr' &
$M sent-miss $F '\t\tc.Stats.Sent.Add(uint64(c.WritePos))\n' '' &
$M sent-cap $F 'c.Stats.Sent.Add(uint64(c.WritePos))' 'c.Stats.Sent.Add(uint64(len(c.WriteBuf)))' &
$M recvd-miss $F '\t\tc.Stats.Recvd.Add(uint64(got))\n' '' &
$M recvd-n $F 'c.Stats.Recvd.Add(uint64(got))' 'c.Stats.Recvd.Add(uint64(n))' &
$M benign-order $F '\tc.WriteBuf[c.WritePos+0] = byte((uint32(val) >> 8) & 0xff)\n\tc.WriteBuf[c.WritePos+1] = byte(uint32(val) & 0xff)' '\tc.WriteBuf[c.WritePos+1] = byte(uint32(val) & 0xff)\n\tc.WriteBuf[c.WritePos+0] = byte((uint32(val) >> 8) & 0xff)' silent &
$M benign-add $F '\tval := uint32(c.ReadBuf[c.ReadStart+0])\n\tval <<= 8\n\tval |= uint32(c.ReadBuf[c.ReadStart+1])\n\tc.ReadStart += 2' '\tval := uint32(c.ReadBuf[c.ReadStart+0])<<8 + uint32(c.ReadBuf[c.ReadStart+1])\n\tc.ReadStart += 2' silent &
wait
