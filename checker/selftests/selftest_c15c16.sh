#!/bin/sh
cd /root/proto/mpcverif
./mut.py C15 or-to-and ot/iknp.go 'if !q0.Equal(t0) || !q1.Equal(t1) {' 'if !q0.Equal(t0) && !q1.Equal(t1) {'
./mut.py C15 only-q0 ot/iknp.go 'if !q0.Equal(t0) || !q1.Equal(t1) {' 'if !q0.Equal(t0) {'
./mut.py C15 no-check ot/iknp.go '\tif !q0.Equal(t0) || !q1.Equal(t1) {\n\t\treturn nil, fmt.Errorf("OT extension check failed")\n\t}\n' '\t_ = q0.Equal(t0) || q1.Equal(t1)\n'
./mut.py C15 no-delta ot/iknp.go '\tr0, r1 = mul128(x, s.Delta)\n\tq0.Xor(r0)\n\tq1.Xor(r1)' '\tr0, r1 = mul128(x, x)\n\tq0.Xor(r0)\n\tq1.Xor(r1)'
./mut.py C15 skip-choice-vector ot/iknp.go '\tr0, r1 := vectorInnPrdtSumNoRed(chi[:len(choiceVector)], choiceVector)\n\tq0.Xor(r0)\n\tq1.Xor(r1)\n\n\tvar x, t0, t1 Label' '\tr0, r1 := vectorInnPrdtSumNoRed(chi[:len(choiceVector)], chi[:len(choiceVector)])\n\tq0.Xor(r0)\n\tq1.Xor(r1)\n\n\tvar x, t0, t1 Label'
./mut.py C15 benign-split ot/iknp.go 'if !q0.Equal(t0) || !q1.Equal(t1) {\n\t\treturn nil, fmt.Errorf("OT extension check failed")\n\t}' 'if !q0.Equal(t0) {\n\t\treturn nil, fmt.Errorf("OT extension check failed")\n\t}\n\tif !q1.Equal(t1) {\n\t\treturn nil, fmt.Errorf("OT extension check failed")\n\t}' silent
./mut.py C16 decode-by-sbit circuit/garbler.go '\t\tboolBit, err := BitFromLabel(wire, label)\n\t\tif err != nil {\n\t\t\treturn nil, err\n\t\t}' '\t\tboolBit := label.S() != wire.L0.S()'
./mut.py C16 stream-else-one compiler/ssa/streamer.go '\t\t} else if label.Equal(wire.L1) {\n\t\t\tbit = 1\n\t\t} else {\n\t\t\treturn nil, nil, fmt.Errorf("unknown label %s for result %d",\n\t\t\t\tlabel, i)\n\t\t}' '\t\t} else {\n\t\t\tbit = uint(label.D0 & 1)\n\t\t}'
./mut.py C16 garbler-trust-count circuit/garbler.go '\treturn circ.Outputs.Split(result), nil\n}' '\treturn circ.Outputs.Split(result.Add(result, big.NewInt(int64(count-int(circ.Inputs[1].Type.Bits))))), nil\n}'
./mut.py C16 benign-inline circuit/garbler.go '\t\tboolBit, err := BitFromLabel(wire, label)\n\t\tif err != nil {\n\t\t\treturn nil, err\n\t\t}' '\t\tvar boolBit bool\n\t\tif label.Equal(wire.L0) {\n\t\t\tboolBit = false\n\t\t} else if label.Equal(wire.L1) {\n\t\t\tboolBit = true\n\t\t} else {\n\t\t\treturn nil, fmt.Errorf("unknown label")\n\t\t}' silent
