#!/bin/sh
M="python3 /root/proto/mpcverif/mut.py C17p"
F=circuit/garble.go
$M put-then-return $F '\t\tif err != nil {\n\t\t\tpool.Put(scratch)\n\t\t\treturn nil, err\n\t\t}\n\t\tif count == 0 {' '\t\tif err != nil {\n\t\t\tpool.Put(scratch)\n\t\t\treturn \&Garbled{Wires: wires}, err\n\t\t}\n\t\tif count == 0 {' &
$M put-early $F '\tscratch := pool.Get().(*garbledScratch)\n' '\tscratch := pool.Get().(*garbledScratch)\n\tpool.Put(scratch)\n' &
$M release-noclear $F '\tg.pool.Put(g.scratch)\n\tg.scratch = nil\n\tg.pool = nil\n' '\tg.pool.Put(g.scratch)\n\tg.scratch = nil\n' &
$M release-noguard $F 'if g == nil || g.pool == nil {' 'if g == nil {' &
$M release-keepwires $F '\tg.Wires = nil\n' '' &
$M slab-or2 $F '\t\tcase OR:\n\t\t\tslabSize += 3' '\t\tcase OR:\n\t\t\tslabSize += 2' &
wait
$M slab-inv0 $F '\t\tcase INV:\n\t\t\tslabSize += 1\n' '' &
$M put-elsewhere $F 'func (g *Garbled) Lambda(wire Wire) uint {\n' 'func (g *Garbled) Lambda(wire Wire) uint {\n\tif g.pool != nil \&\& wire == 1<<31 {\n\t\tg.pool.Put(g.scratch)\n\t}\n' &
$M benign-order $F '\tg.scratch = nil\n\tg.pool = nil\n' '\tg.pool = nil\n\tg.scratch = nil\n' silent &
wait
