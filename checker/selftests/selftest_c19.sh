#!/bin/sh
M="python3 /root/proto/mpcverif/mut.py C19m"
F=p2p/network.go
$M dial-le-lt $F '} else if peer.ID <= self.ID {' '} else if peer.ID < self.ID {' &
$M dial-reverse $F '} else if peer.ID <= self.ID {' '} else if peer.ID >= self.ID {' &
$M accept-reverse $F 'if self.ID > id {' 'if self.ID < id {' &
$M leader-conn0 $F '\t\t\tif connID == 0 {\n\t\t\t\tcontinue\n\t\t\t}' '\t\t\tif connID != 0 {\n\t\t\t\tcontinue\n\t\t\t}' &
$M leader-need $F 'nw.need[i] = nw.NumParties - 1' 'nw.need[i] = nw.NumParties' &
$M roster-len $F 'SendUint32(len(nw.Peers) - 2)' 'SendUint32(len(nw.Peers) - 1)' &
$M roster-self $F 'if i.ID == nw.Self.ID || i.ID == peer.ID {' 'if i.ID == nw.Self.ID {' &
$M magic-mask $F 'connMagicMask = 0xffffff00' 'connMagicMask = 0xffff0000' fire &
wait
$M magic-low $F 'connMagic     = 0x474d5700' 'connMagic     = 0x474d5701' &
$M decode16 $F 'connID := int(byte(magic))' 'connID := int(uint16(magic))' &
$M guard-wide $F 'if connID > 0xff {' 'if connID > 0xfff {' &
$M unlock-missing $F '\tif nw.need[connID] == 0 {\n\t\tnw.m.Unlock()\n' '\tif nw.need[connID] == 0 {\n' &
$M no-broadcast $F '\tnw.need[connID]--\n\tnw.c.Broadcast()\n' '\tnw.need[connID]--\n' &
$M write-unlocked $F '\tnw.m.Lock()\n\tdefer nw.m.Unlock()\n\n\tnw.listenerDone = true' '\tnw.listenerDone = true' &
$M benign-gt $F '} else if peer.ID <= self.ID {' '} else if !(peer.ID > self.ID) {' silent &
wait
