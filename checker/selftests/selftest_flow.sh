#!/bin/sh
cd /root/proto/mpcverif
./mut.py C17 eval-writes-stats circuit/eval.go '\tvar data ot.LabelData\n\tvar id uint32\n\n\tfor i := 0; i < len(c.Gates); i++ {\n\t\tgate := &c.Gates[i]\n\n\t\tvar a, b, c ot.Label' '\tvar data ot.LabelData\n\tvar id uint32\n\tc.Stats[Count]++\n\n\tfor i := 0; i < len(c.Gates); i++ {\n\t\tgate := &c.Gates[i]\n\n\t\tvar a, b, c ot.Label'
./mut.py C17 garble-writes-level circuit/garble.go '\t\tgate := &c.Gates[i]\n\t\tstart, count, err := gate.garbleInto' '\t\tgate := &c.Gates[i]\n\t\tgate.Level = 0\n\t\tstart, count, err := gate.garbleInto'
./mut.py C17 compute-caches circuit/computer.go '\t// Construct outputs\n\tw = c.NumWires - c.Outputs.Size()' '\t// Construct outputs\n\tc.NumGates = len(c.Gates)\n\tw = c.NumWires - c.Outputs.Size()'
./mut.py C13 split-mutates circuit/ioarg.go '\tvar result []*big.Int\n\tvar bit int\n\tfor _, arg := range io {' '\tvar result []*big.Int\n\tvar bit int\n\tin.Abs(in)\n\tfor _, arg := range io {'
./mut.py C13 compute-mutates circuit/computer.go '\t\t\twires[w] = byte(inputs[idx].Bit(bit))' '\t\t\twires[w] = byte(inputs[idx].Bit(bit))\n\t\t\tinputs[idx].SetBit(inputs[idx], bit, 0)'
