#!/bin/sh
cd /root/proto/mpcverif
./mut.py C05s stream-drop-numsteps compiler/ssa/streamer.go '\t// Number of program steps.\n\tif err := conn.SendUint32(len(prog.Steps)); err != nil {\n\t\treturn nil, nil, err\n\t}\n' ''
./mut.py C05s streameval-noflush circuit/stream_evaluator.go '\t\t\tif err := conn.Flush(); err != nil {\n\t\t\t\treturn nil, nil, err\n\t\t\t}\n\n\t\t\tresult, err := conn.ReceiveData()' '\t\t\tresult, err := conn.ReceiveData()'
./mut.py C05s sendarg-order compiler/ssa/streamer.go '\tif err := conn.SendString(arg.Type.String()); err != nil {\n\t\treturn err\n\t}\n\tif err := conn.SendUint32(int(arg.Type.Bits)); err != nil {\n\t\treturn err\n\t}' '\tif err := conn.SendUint32(int(arg.Type.Bits)); err != nil {\n\t\treturn err\n\t}\n\tif err := conn.SendString(arg.Type.String()); err != nil {\n\t\treturn err\n\t}'
./mut.py C05s garble-4-fields compiler/ssa/streamer.go '\tif err := conn.SendUint32(step); err != nil {\n\t\treturn err\n\t}\n' ''
./mut.py C05s stream-ret-noflush compiler/ssa/streamer.go '\t\t\tif err := conn.Flush(); err != nil {\n\t\t\t\treturn nil, nil, err\n\t\t\t}\n\n\t\tcase Circ:' '\t\tcase Circ:'
./mut.py C19d dial-no-addr p2p/network.go '\tif err := conn.SendString(self.Addr); err != nil {\n\t\tconn.Close()\n\t\treturn err\n\t}\n' ''
./mut.py C19d leader-addr-first p2p/network.go '\t\t\terr = peer.Conns[0].SendUint32(i.ID)\n\t\t\tif err != nil {\n\t\t\t\treturn err\n\t\t\t}\n\t\t\terr = peer.Conns[0].SendString(i.Addr)' '\t\t\terr = peer.Conns[0].SendString(i.Addr)\n\t\t\tif err != nil {\n\t\t\t\treturn err\n\t\t\t}\n\t\t\terr = peer.Conns[0].SendUint32(i.ID)'
./mut.py C10d share-noflush gmw/peer.go '\terr = o.online.Flush()\n\tif err != nil {\n\t\treturn err\n\t}\n\tp.shared.Xor' '\tp.shared.Xor'
./mut.py C10v bitvec2-one-vector gmw/peer.go '\tfor i := 0; i < len(b1); i += 2 {\n\t\tif err := conn.ReceiveLabel(&l, &ld); err != nil {\n\t\t\treturn err\n\t\t}\n\t\tb1[i] = l.D0\n\t\tif i+1 < len(b1) {\n\t\t\tb1[i+1] = l.D1\n\t\t}\n\t}\n' ''
./mut.py C20 vole-recv-noflush vole/vole.go '\tif err := e.conn.Flush(); err != nil {\n\t\treturn nil, fmt.Errorf("vole: MulReceiver flush y-vector: %w", err)\n\t}\n' ''
./mut.py C06d sendbits-extra-flush-benign ot/iknp.go '\tif err := r.io.Flush(); err != nil {\n\t\treturn err\n\t}\n\n\treturn nil\n}\n\nfunc newPrg' '\tif err := r.io.Flush(); err != nil {\n\t\treturn err\n\t}\n\tif err := r.io.Flush(); err != nil {\n\t\treturn err\n\t}\n\n\treturn nil\n}\n\nfunc newPrg' silent
