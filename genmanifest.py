#!/usr/bin/env python3
# writes MANIFEST.json for the 20 properties (levels as in DESIGN.md section 3 overview)
import json
levels={'C01':'proof'}
tech={
 'C01':'abstract interpretation of go/ssa over GF(2)-affine label forms (E1)',
 'C02':'communication-automaton duality + flush typestate; wire-range evaluation (E2,E8)',
 'C03':'dispatch-table agreement; constructor signedness; wiring opcode meaning (E6,E8)',
 'C04':'interprocedural taint from offset/label pairs to sends (E4)',
 'C05':'sibling agreement of streaming and whole-circuit forms; record codec; cache-key soundness (E1,E2,E3,E6,E8)',
 'C06':'OT pair duality; rounding discipline; chunk geometry agreement (E2,E7,E8)',
 'C07':'fill-loop and constant-index lints; GF(2) polynomial identities of builders (E7,E8)',
 'C08':'map-range order, clock-into-data and cached-state flow rules (E5,E4)',
 'C09':'constant-propagation table vs truth tables; rewrite guards (E1,E8)',
 'C10':'exchange duality; Beaver/triple identities as GF(2) polynomials; level schedule (E2,E8)',
 'C11':'codec width/guard agreement; close ordering; counter pairing (E3,E7)',
 'C12':'folding/lowering dispatch agreement; signedness contradiction rule (E6)',
 'C13':'argument-purity effect analysis of decoders (E4)',
 'C14':'writer/reader field agreement; sibling decoders; short-read and bounded-store lints (E3,E6,E7)',
 'C15':'must-pass-through of both equalities; dependency slice of q (E4,E8)',
 'C16':'verification-before-use dominance rules (E4)',
 'C17':'pool typestate: every Put clears the fields; no use after Put (E7)',
 'C18':'codec agreement, guards and layout of the sha2pc messages (E3,E7,E8)',
 'C19':'dial/accept converse over all id orderings; hello codec; lock typestate (E8,E7)',
 'C20':'RSA/CO OT arithmetic identities over Z and GF(2); role duality (E8,E2)',
}
texts={'C01': 'Machine-checked proof obligations: Gate.garbleInto, Circuit.Eval, Compute, makeLabels, encrypt/decrypt, LabelForBit/BitFromLabel and garbleScratchPool are abstractly interpreted (go/ssa) over GF(2)-affine label forms under every (op, permute bits, input bits) partition; each obligation is an equality of canonical forms valid for all labels, keys and randomness. The induction over the gate list is the paper part (trusted_base).', 'C02': "Structural necessary conditions decided for every path: Garbler/Evaluator and all OT role pairs are dual communication automata, no blocking receive is reachable with unflushed sends, wire ranges agree at both roles, and input bit i <-> wire i <-> result bit i with the right polarity. The transported values' correctness rests on C01/C06; EC/RSA arithmetic is not decided.", 'C03': 'Only the instruction-selection tables are decided (opcode exhaustiveness, signedness and argument-position agreement, constructor signedness) plus the meaning of the eight wiring opcodes and operand padding for small shapes; compiler semantics over all programs is value semantics and is not decided.', 'C04': 'Decides that no raw secret (global offset, both labels of a wire, unmasked row) reaches a send or payload field in any garbler role, by interprocedural taint on go/ssa with three declassifiers; cryptographic secrecy is not decided. One genuine defect (sha2pc OutputHints) is a recorded known finding.', 'C05': 'Decides sibling agreement between streaming and whole-circuit mode: garbling/evaluation forms per (op, permute bits, wire class, id width), the gate record codec and buffer reservation, session duality, opcode dispatch, GC alias set, wiring opcodes on small shapes, cache-key soundness, segmented stores. Each is a necessary condition of equal outputs; free-list correctness and widths beyond the shapes are not decided.', 'C06': 'Decides OT pair duality and flush discipline, the rounding discipline of every count division in the OT files, IKNP chunk geometry agreement, mask domain separation and MITCCRH schedule agreement. EC, RSA and transpose arithmetic are not decided.', 'C07': 'Decides two structural necessary conditions of the builders (indexed-fill completeness, constant-index guards) and, as GF(2) polynomial identities valid for every width and input, the bit-parallel builders and one-bit cells. Carry chains, multipliers and dividers are not interpreted.', 'C08': 'Decides that no nondeterministic order (map range, clock, random source) reaches emitted code in the compile call graph and that no per-compilation state survives on cached packages. OS directory order is outside the quantifier.', 'C09': "Decides soundness of the constant-propagation table against Compute's truth tables (45 cells) and the guards of the optimiser rewrites; target-specific builders are C07's.", 'C10': 'Decides exchange duality by id ordering, exactly-one-party rules, level schedule, and proves (GF(2) polynomial identities from the source expressions, for 2-4 parties) the Beaver step, triple validity modulo the bit-COT contract, and input/output share algebra; mesh set-up over finite orderings. Pool synchronisation and termination are not decided.', 'C11': 'Decides the Send/Receive codec table (guard, Fill request, offsets, byte order, advance), WriteBuf store guards, Fill compaction by linear forms, data codec coupling, Close ordering and counter pairing. Goroutine hand-off of writerErr and liveness are not decided.', 'C12': "Decides folding dispatch coverage, the signedness contradiction rule and the >64-bit path's builder agreement; value agreement for all operators/widths is arithmetic and is not decided. Seven genuine signedness defects are recorded known findings, keyed per arm.", 'C13': 'Decides that decoders do not mutate the *big.Int values they are given (store/mutating-call effect analysis through aliases), which with determinism gives repeatability; bit-for-bit agreement of Set and Parse is not decided.', 'C14': "Decides writer/reader field-sequence and field-order agreement of the MPCLC and Bristol codecs, sibling decoder agreement, no short read, bounded stores, validation before construction, type spelling round trip. 'Same function' beyond field identity is not decided.", 'C15': 'Decides the necessary structure of the KOS check: success only through both equalities, the check value depends on Delta, every row and the coefficients, and the coefficient streams agree. The probabilistic soundness argument is not decided.', 'C16': "Decides that received data influences the garbler's result only through full-label equality and that a label equal to neither wire label ends in an error in every role; liveness and evaluator panics are not decided.", 'C17': 'Decides write-freedom on the shared *Circuit in everything reachable from Garble/Eval/Compute, the scratch pool typestate (no use after Put, cleared fields) and slab sizing vs derived row counts; caller misuse is not decided.', 'C18': 'Decides encode/decode agreement and field order of the five sha2pc message/state types, magic/curve/session guards on every success path, fixed layout arithmetic of round 3, no short read, session immutability, row-count table. That the circuit computes SHA-256 is not decided.', 'C19': 'Decides dial/accept converse over representatives of every id ordering, roster contents, hello bit-field codec for all admitted ids, message duality and the lock/condition typestate; timing and TCP behaviour are not decided.', 'C20': 'Decides u - r = x*y (polynomials over Z) and r xor x_b = a*b (GF(2)) from the source expressions, element layout constants, label transport width/order and role duality; the IKNP contract (C06), privacy and primality are not decided.'}
checks=[]
for i in range(1,21):
    pid='C%02d'%i
    cat=levels.get(pid,'other')
    checks.append({
      'property_id':pid,
      'quick_cmd':'./run %s quick'%pid,
      'thorough_cmd':'./run %s thorough'%pid,
      'evidence_file':'/verif/evidence/%s.json'%pid,
      'replay_cmd_template':'./run %s --replay {path}'%pid,
      'engine':'mpcverif',
      'level_claimed':{'category':cat,'text':texts[pid],'design_ref':'DESIGN.md section 3, %s'%pid},
      'level_note':'trusted: go/types, go/ssa (x/tools v0.50.0), the rule tables in checker/internal/props; structural necessary conditions only where DESIGN says so',
      'technique':tech[pid],
    })
m={'version':1,
   'setup_cmd':'cd /verif/checker && PATH=/opt/veriftools/go1.26.8/bin:$PATH GOTOOLCHAIN=local GOFLAGS=-mod=mod GOPROXY=off go build -o bin/mpcverif ./cmd/mpcverif',
   'hooks':{'guard':'verif','enable':'none: the checks are static and need no hooks in /repo','baseline_off_cmd':'cd /repo && GOFLAGS=-mod=mod go test -vet=off -count=1 -timeout 25m ./...','source_commits':[],'add_only':True},
   'engines':[{'name':'mpcverif','path':'checker','serves_properties':['C%02d'%i for i in range(1,21)],'kind_free_text':'repository-specific static analyser on go/packages + go/ssa: abstract interpretation, protocol duality, codec agreement, taint/effects, order, dispatch agreement, lints, source-fragment interpretation'}],
   'checks':checks,
   'notes':'All checks are static: nothing of /repo is compiled to run or executed.',
   'not_applicable':[]}
json.dump(m,open('MANIFEST.json','w'),indent=1)
