#!/bin/bash
# run every property check (tier $1, default quick) in parallel; prints one line per property
tier=${1:-quick}; out=${2:-/tmp/verif-runall}; mkdir -p $out
cd "$(dirname "$0")"
for i in $(seq -w 1 20); do ( s=$(date +%s.%N); ./run C$i $tier > $out/C$i.log 2>&1; rc=$?; e=$(date +%s.%N); printf "C%s rc=%d %5.1fs viol=%d known=%d\n" $i $rc $(echo "$e - $s"|bc) $(grep -c '^VIOLATION' $out/C$i.log) $(grep -c '^KNOWN-FINDING' $out/C$i.log) ) & while [ $(jobs -r | wc -l) -ge ${J:-8} ]; do sleep 0.2; done; done; wait
