#!/usr/bin/env python3
"""Two-way self-test of the static checks (DESIGN 2.3).

Every case of a corpus is applied to a scratch copy of the tree under analysis
(made outside /repo and /verif, deleted afterwards); the copy must still build;
the named property checks are run against it and their reports are compared
with the reports on the unchanged tree:

  expect=fire    at least one NEW violated/undecided obligation must appear
  expect=silent  no new obligation may appear (benign refactor, rename, noise)

Case kinds: replace (ordered literal replacements in one file), regex
(re.subn replacements in one file), patch (a unified diff, e.g. a seeded
defect from /verif/seeded/<id>/patch.diff), tool (a behaviour-preserving
rewrite of one file by checker/cmd/benign at every applicable site).
The property "ALL" runs every property over one loaded program.

usage: st.py [-j N] [-k substr] [-p PROP] [--repo DIR] [corpus.json ...]
exit 0 iff every case behaved as expected (cases whose pattern no longer
matches the tree are reported as STALE and fail the run too).
"""
import argparse, json, os, re, shutil, subprocess, sys, tempfile, threading
from concurrent.futures import ThreadPoolExecutor

HERE = os.path.dirname(os.path.abspath(__file__))
VERIF = os.path.dirname(HERE)
BIN = os.environ.get("MPCVERIF_BIN") or os.path.join(VERIF, "checker", "bin", "mpcverif")
BENIGN = os.path.join(VERIF, "checker", "bin", "benign")
ENV = dict(os.environ)
ENV["PATH"] = "/opt/veriftools/go1.26.8/bin:" + ENV["PATH"]
ENV.update(GOTOOLCHAIN="local", GOFLAGS="-mod=mod", GOPROXY="off")
ENV.pop("GOWORK", None)

def _trim_cache(limit_gb=40):
    """Scratch copies live at fresh paths, so every run adds compiled packages to the Go build cache;
    keep it from filling the disk."""
    try:
        d = subprocess.run(["go", "env", "GOCACHE"], capture_output=True, text=True, env=ENV).stdout.strip()
        if not d:
            return
        kb = int(subprocess.run(["du", "-sk", d], capture_output=True, text=True).stdout.split()[0])
        if kb > limit_gb * 1024 * 1024:
            subprocess.run(["go", "clean", "-cache"], env=ENV)
    except Exception:
        pass


_base = {}
_base_lock = threading.Lock()


def reports(tree, prop):
    out = tempfile.mkdtemp(prefix="mpcout-")
    try:
        shutil.copy(os.path.join(VERIF, "known_findings.txt"), out)
        r = subprocess.run([BIN, "-repo", tree, "-prop", prop, "-verif", out], capture_output=True, text=True, env=ENV)
        rep = {}
        for l in r.stdout.splitlines():
            if l.startswith("  "):
                head = l.split(" [", 1)[0].strip()
                rep[head] = l.strip()
        return r.returncode, rep
    finally:
        shutil.rmtree(out, ignore_errors=True)


def baseline(repo, prop):
    with _base_lock:
        ev = _base.get(prop)
        if ev is None:
            ev = _base[prop] = threading.Event()
            owner = True
        else:
            owner = False
    if owner:
        ev.result = reports(repo, prop)
        ev.set()
    ev.wait()
    return ev.result


def apply_case(case, tmp):
    if case["kind"] == "patch":
        p = case["patch"]
        if not os.path.isabs(p):
            p = os.path.join(VERIF, p)
        cmd = ["patch", "-s", "-p1", "-i", p]
        if case.get("reverse"):
            cmd.insert(1, "-R")
        r = subprocess.run(cmd, cwd=tmp, capture_output=True, text=True)
        return None if r.returncode == 0 else "patch does not apply: " + (r.stdout + r.stderr)[:200]
    if case["kind"] == "tool":
        r = subprocess.run([BENIGN, "-kind", case["tool"], "-file", os.path.join(tmp, case["file"])], capture_output=True, text=True, env=ENV, cwd=tmp)
        if r.returncode == 3:
            return "no site"
        return None if r.returncode == 0 else "tool failed: " + (r.stdout + r.stderr)[:200]
    path = os.path.join(tmp, case["file"])
    s = open(path).read()
    for old, new in case["pairs"]:
        if case["kind"] == "regex":
            s, n = re.subn(old, new, s)
            if n == 0:
                return "pattern not found: " + old[:60]
        else:
            if old not in s:
                return "pattern not found: " + old[:60].replace("\n", "\\n")
            s = s.replace(old, new, 1)
    open(path, "w").write(s)
    return None


def run_case(case, repo, scratch_root):
    tmp = tempfile.mkdtemp(prefix="mpcmut-", dir=scratch_root)
    res = []
    try:
        subprocess.run(["rsync", "-a", "--exclude", ".git", "--exclude", "pkg", "--exclude", "docs", repo + "/", tmp + "/"], check=True)
        err = apply_case(case, tmp)
        if err == "no site":
            return [("SKIP", case, "", "transformation has no site in this file")]
        if err:
            return [("STALE", case, "", err)]
        b = subprocess.run(["go", "build", "./..."], cwd=tmp, capture_output=True, text=True, env=ENV)
        if b.returncode != 0:
            # a generated rewrite that does not compile is a limitation of the generator, not a verdict
            return [("SKIP" if case["kind"] == "tool" else "NOBUILD", case, "", b.stderr[:300])]
        for prop in case["props"]:
            brc, brep = baseline(repo, prop)
            rc, rep = reports(tmp, prop)
            new = [v for k, v in rep.items() if k not in brep]
            fired = len(new) > 0
            ok = fired == (case["expect"] == "fire")
            res.append(("OK" if ok else "BAD", case, prop, new[0][:230] if new else "no new reports (exit %d)" % rc))
        return res
    finally:
        shutil.rmtree(tmp, ignore_errors=True)


def main():
    _trim_cache()
    ap = argparse.ArgumentParser()
    ap.add_argument("-j", type=int, default=8)
    ap.add_argument("-k", default="")
    ap.add_argument("-p", default="")
    ap.add_argument("--repo", default=os.environ.get("VERIF_REPO", "/repo"))
    ap.add_argument("--scratch", default=os.environ.get("TMPDIR", "/tmp"))
    ap.add_argument("corpus", nargs="*")
    a = ap.parse_args()
    files = a.corpus or sorted(os.path.join(HERE, f) for f in os.listdir(HERE) if f.startswith("corpus") and f.endswith(".json"))
    cases = []
    for f in files:
        for c in json.load(open(f)):
            c.setdefault("origin", os.path.basename(f))
            cases.append(c)
    if a.k:
        cases = [c for c in cases if a.k in c["name"] or a.k in c.get("file", "") or a.k in c.get("origin", "")]
    if a.p:
        cases = [dict(c, props=[p for p in c["props"] if p.startswith(a.p)]) for c in cases]
        cases = [c for c in cases if c["props"]]
    if not os.path.exists(BIN):
        subprocess.run(["go", "build", "-o", "bin/mpcverif", "./cmd/mpcverif"], cwd=os.path.join(VERIF, "checker"), env=ENV, check=True)
    if not os.path.exists(BENIGN):
        subprocess.run(["go", "build", "-o", "bin/benign", "./cmd/benign"], cwd=os.path.join(VERIF, "checker"), env=ENV, check=True)
    tally = {}
    bad = []
    with ThreadPoolExecutor(a.j) as ex:
        for rs in ex.map(lambda c: run_case(c, a.repo, a.scratch), cases):
            for st, c, prop, msg in rs:
                tally[st] = tally.get(st, 0) + 1
                line = "%-7s %-5s %-6s %-34s %s" % (st, c["expect"], prop, c["name"][:34], msg)
                print(line, flush=True)
                if st not in ("OK", "SKIP"):
                    bad.append(line)
    print("selftest:", " ".join("%s=%d" % kv for kv in sorted(tally.items())), "cases=%d" % len(cases))
    sys.exit(0 if not bad else 1)


if __name__ == "__main__":
    main()
